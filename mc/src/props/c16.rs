//! C16: checksums equal their definitions and compose incrementally; running checksums of the
//! compressor, the zlib decoder and the C stream equal the Adler-32 of the data so far.
use crate::capi::{self, Place};
use crate::drv::*;
use crate::evidence::Report;
use crate::refmodel::{adler32_def, crc32_def};
use crate::util::{hex, par_for, unhex, Lcg};
use crate::zlibffi::{z_adler32, z_crc32};
use crate::{corpus, guarded, watchdog};
use miniz_oxide::mz_adler32_oxide;
use miniz_oxide_c_api::mz_crc32_oxide;
use serde_json::{json, Value};

fn buffer(kind: u8, len: usize) -> Vec<u8> {
    match kind {
        0 => vec![0xff; len],
        1 => vec![0x00; len],
        2 => (0..len).map(|i| i as u8).collect(),
        _ => {
            let mut l = Lcg(0xabcdef ^ crate::util::seed());
            (0..len).map(|_| l.byte()).collect()
        }
    }
}

const STARTS: [u32; 4] = [1, (65520 << 16) | 65520, 65520, 65520 << 16];

/// All oracles for one (buffer, start, splits). Returns number of evaluations.
fn check_buf(buf: &[u8], start: u32, splits: &[usize]) -> Result<u64, (String, String)> {
    let mut n = 0u64;
    let want_a = adler32_def(start, buf);
    let want_c = crc32_def(start, buf);
    if buf.len() <= 70_000 || start == 1 {
        // definition vs system zlib (third party)
        if z_adler32(start, buf) != want_a || z_crc32(start, buf) != want_c {
            crate::props::selftest::machinery_fail("checksum definition disagrees with system zlib");
        }
    }
    let a = mz_adler32_oxide(start, buf);
    n += 1;
    if a != want_a {
        return Err(("adler/one-pass".into(), format!("update_adler32({:#x}, {} bytes) = {:#x}, definition gives {:#x}", start, buf.len(), a, want_a)));
    }
    let c = mz_crc32_oxide(start, buf);
    n += 1;
    if c != want_c {
        return Err(("crc/one-pass".into(), format!("mz_crc32_oxide({:#x}, {} bytes) = {:#x}, definition gives {:#x}", start, buf.len(), c, want_c)));
    }
    // C ABI, lower 32 bits only are used of the c_ulong seed
    for hi in [0u64, 0xdead_beef_0000_0000] {
        let ca = capi::c_adler32(hi | start as u64, Some(buf));
        let cc = capi::c_crc32(hi | start as u64, Some(buf));
        n += 2;
        if ca != want_a as u64 {
            return Err(("adler/c-api".into(), format!("mz_adler32({:#x}, {} bytes) = {:#x}, definition gives {:#x}", hi | start as u64, buf.len(), ca, want_a)));
        }
        if cc != want_c as u64 {
            return Err(("crc/c-api".into(), format!("mz_crc32({:#x}, {} bytes) = {:#x}, definition gives {:#x}", hi | start as u64, buf.len(), cc, want_c)));
        }
    }
    // composition: every listed split (1 or 2 cut points)
    let mut pts: Vec<usize> = splits.iter().cloned().filter(|&s| s <= buf.len()).collect();
    pts.sort();
    let mut a = start;
    let mut c = start;
    let mut ca = start as u64;
    let mut cc = start as u64;
    let mut prev = 0;
    for &p in pts.iter().chain(std::iter::once(&buf.len())) {
        a = mz_adler32_oxide(a, &buf[prev..p]);
        c = mz_crc32_oxide(c, &buf[prev..p]);
        ca = capi::c_adler32(ca, Some(&buf[prev..p]));
        cc = capi::c_crc32(cc, Some(&buf[prev..p]));
        prev = p;
        n += 4;
    }
    if a != want_a || ca != want_a as u64 {
        return Err((
            if a != want_a { "adler/split".into() } else { "adler/c-api-split".into() },
            format!("Adler-32 over splits {:?} of {} bytes = {:#x} / C {:#x}, one pass by definition {:#x}", pts, buf.len(), a, ca, want_a),
        ));
    }
    if c != want_c || cc != want_c as u64 {
        return Err((
            if c != want_c { "crc/split".into() } else { "crc/c-api-split".into() },
            format!("CRC-32 over splits {:?} of {} bytes = {:#x} / C {:#x}, one pass by definition {:#x}", pts, buf.len(), c, cc, want_c),
        ));
    }
    Ok(n)
}

/// Decoder running checksum at every call boundary of a scheduled zlib decode.
fn decoder_running(stream: &[u8], plain: &[u8], mode: Mode, blen: usize, chunk: usize, budget: usize) -> Result<u64, String> {
    let mut d = DecDrv::new(mode, blen, F_ZLIB, 0);
    let mut n = 0;
    let mut err: Option<String> = None;
    drive(&mut d, stream, chunk, budget, &mut |d, o| {
        n += 1;
        if err.is_some() || (o.status as i8) < 0 {
            return;
        }
        if let Some(a) = d.r.adler32() {
            let want = adler32_def(1, &d.out);
            if a != want {
                err = Some(format!("DecompressorOxide::adler32() = {:#x} after {} output bytes (call {}), Adler-32 of those bytes is {:#x}", a, d.out.len(), d.calls, want));
            }
        } else if d.in_pos >= 2 && d.out.len() > 0 {
            err = Some(format!("DecompressorOxide::adler32() = None after {} output bytes of a zlib stream", d.out.len()));
        }
    });
    if let Some(e) = err {
        return Err(e);
    }
    if d.out != plain {
        return Err("decode result differs".into());
    }
    Ok(n)
}

/// mz_stream.adler after every mz_deflate / mz_inflate call of a schedule.
/// mz_deflateInit2, `first` bytes compressed (not finished when first is odd), mz_deflateReset, then
/// probe 0: an empty MZ_SYNC_FLUSH call; 1: an empty MZ_FINISH call; 2: an empty MZ_NO_FLUSH call
/// (may answer MZ_BUF_ERROR); 3: 50 bytes with MZ_NO_FLUSH. After the probe call mz_stream.adler
/// must be the Adler-32 of what the *second* stream has consumed.
fn reset_then_idle(level: i32, wbits: i32, strategy: i32, first: usize, probe: u8) -> Result<(), String> {
    unsafe {
        let data = corpus::shape_named("T", &[(crate::gen::Seg::T, 40_100)]).data;
        let mut zs = capi::new_stream();
        if miniz_oxide_c_api::mz_deflateInit2(&mut zs, level, 8, wbits, 9, strategy) != 0 {
            return Err("mz_deflateInit2 failed".into());
        }
        let mut ip = 0;
        while ip < first {
            let o = capi::stream_call(&mut zs, false, &data, ip, first - ip, 100_000, if first % 2 == 0 { 4 } else { 0 }, Place::End)?;
            ip += o.consumed;
            if o.ret == 1 || (o.consumed == 0 && o.written == 0) {
                break;
            }
        }
        if miniz_oxide_c_api::mz_deflateReset(&mut zs) != 0 {
            miniz_oxide_c_api::mz_deflateEnd(&mut zs);
            return Err("mz_deflateReset failed".into());
        }
        let (k, flush) = match probe {
            0 => (0, 2),
            1 => (0, 4),
            2 => (0, 0),
            _ => (50, 0),
        };
        let o = capi::stream_call(&mut zs, false, &data, 0, k, 100_000, flush, Place::End)?;
        let want = adler32_def(1, &data[..o.consumed]);
        let res = if o.adler != want { Err(format!("after mz_deflateReset and an mz_deflate call (flush {}, {} bytes offered, returned {}, {} consumed) mz_stream.adler = {:#x}, Adler-32 of the consumed input is {:#x}", flush, k, o.ret, o.consumed, o.adler, want)) } else { Ok(()) };
        miniz_oxide_c_api::mz_deflateEnd(&mut zs);
        res
    }
}

fn stream_adler(input: &[u8], level: i32, chunk: usize, room: usize, wbits: i32, strategy: i32, mid_flush: i32) -> Result<u64, String> {
    unsafe {
        let mut n = 0;
        let mut zs = capi::new_stream();
        let rc = if wbits == 15 && strategy == 0 { miniz_oxide_c_api::mz_deflateInit(&mut zs, level) } else { miniz_oxide_c_api::mz_deflateInit2(&mut zs, level, 8, wbits, 9, strategy) };
        if rc != 0 {
            return Err("mz_deflateInit failed".into());
        }
        let mut ip = 0;
        let mut comp = vec![];
        let mut guard = 0;
        loop {
            let k = chunk.min(input.len() - ip);
            // the field is defined for every kind of deflate stream (zlib or raw, any strategy) and at
            // every call boundary, whatever flush the call carried
            let flush = if ip + k == input.len() { 4 } else { mid_flush };
            let o = capi::stream_call(&mut zs, false, input, ip, k, room, flush, Place::End)?;
            ip += o.consumed;
            comp.extend_from_slice(&o.out);
            n += 1;
            let want = adler32_def(1, &input[..ip]);
            if o.adler != want {
                miniz_oxide_c_api::mz_deflateEnd(&mut zs);
                return Err(format!("mz_stream.adler = {:#x} after mz_deflate consumed {} bytes in total, Adler-32 of the consumed input is {:#x}", o.adler, ip, want));
            }
            if n % 3 == 1 {
                // a call the shim rejects (flush value 9) produces and consumes nothing: the field still
                // holds the checksum of the input consumed so far
                let rej = capi::stream_call(&mut zs, false, input, ip, 0, room, 9, Place::End)?;
                if rej.ret >= 0 || rej.adler != want {
                    miniz_oxide_c_api::mz_deflateEnd(&mut zs);
                    return Err(format!("after a rejected mz_deflate call (flush 9, returned {}) mz_stream.adler = {:#x}; Adler-32 of the {} bytes consumed so far is {:#x}", rej.ret, rej.adler, ip, want));
                }
            }
            if o.ret == 1 {
                break;
            }
            if o.ret < 0 && o.ret != -5 {
                miniz_oxide_c_api::mz_deflateEnd(&mut zs);
                return Err(format!("mz_deflate returned {}", o.ret));
            }
            guard += 1;
            if guard > 2_000_000 {
                return Err("mz_deflate loop does not end".into());
            }
        }
        miniz_oxide_c_api::mz_deflateEnd(&mut zs);
        if zs.adler as u32 != adler32_def(1, input) {
            return Err(format!("after mz_deflateEnd mz_stream.adler = {:#x}; Adler-32 of the input is {:#x}", zs.adler, adler32_def(1, input)));
        }
        // inflate side: the usual MZ_NO_FLUSH loop, and (pass 1) a header-only first call followed by
        // MZ_FINISH calls - a Finish call that runs out of room returns MZ_BUF_ERROR after delivering
        // bytes, and the field must be up to date at that return too
        for pass in 0..2 {
        let mut zi = capi::new_stream();
        if miniz_oxide_c_api::mz_inflateInit2(&mut zi, wbits) != 0 {
            return Err("mz_inflateInit2 failed".into());
        }
        let mut ip = 0;
        let mut out: Vec<u8> = vec![];
        let mut guard = 0;
        loop {
            let (k, fl) = if pass == 0 { (chunk.min(comp.len() - ip), 0) } else if ip == 0 { (2.min(comp.len()), 0) } else { (comp.len() - ip, 4) };
            let o = capi::stream_call(&mut zi, true, &comp, ip, k, room, fl, Place::End)?;
            ip += o.consumed;
            out.extend_from_slice(&o.out);
            n += 1;
            if wbits > 0 && (o.ret >= 0 || o.ret == -5) && !out.is_empty() {
                // (zlib streams only: the property speaks of a zlib decoder)
                // "output produced so far" = bytes the decoder has decoded: what was handed to the
                // caller plus at most one window (32 KiB) still pending inside the wrapper. The
                // plaintext is known, so the field must equal the Adler-32 of some prefix of it that
                // covers everything delivered, and of exactly everything at MZ_STREAM_END.
                let mut a = adler32_def(1, &out);
                let mut ok = a == o.adler;
                if !ok && o.ret != 1 {
                    for l in out.len()..input.len().min(out.len() + 32768) {
                        a = adler32_def(a, &input[l..l + 1]);
                        if a == o.adler {
                            ok = true;
                            break;
                        }
                    }
                }
                if !ok {
                    miniz_oxide_c_api::mz_inflateEnd(&mut zi);
                    return Err(format!("mz_stream.adler = {:#x} after mz_inflate (flush {}) delivered {} bytes in total (ret {}): not the Adler-32 of the delivered output ({:#x}) nor of any plaintext prefix up to one window longer", o.adler, fl, out.len(), o.ret, adler32_def(1, &out)));
                }
            }
            if o.ret == 1 {
                break;
            }
            if o.ret < 0 && o.ret != -5 {
                miniz_oxide_c_api::mz_inflateEnd(&mut zi);
                return Err(format!("mz_inflate returned {}", o.ret));
            }
            if o.ret == -5 && fl == 4 && o.written == 0 && o.consumed == 0 {
                miniz_oxide_c_api::mz_inflateEnd(&mut zi);
                return Err("mz_inflate(MZ_FINISH) makes no progress".into());
            }
            guard += 1;
            if guard > 2_000_000 {
                return Err("mz_inflate loop does not end".into());
            }
        }
        miniz_oxide_c_api::mz_inflateEnd(&mut zi);
        if out != input {
            return Err("C round trip differs".into());
        }
        if room == 1 || comp.len() < 3 {
            break; // the Finish pass with 1-byte rooms adds nothing over pass 0
        }
        }
        Ok(n)
    }
}

/// Flavour `bb` (feature block-boundary): the decoder's running checksum at every call boundary
/// when the caller asks to stop at block boundaries (a fourth non-error status exists there).
#[cfg(feature = "bb")]
fn run_bb(rep: &Report, th: bool) -> i32 {
    use miniz_oxide::inflate::core::{decompress, DecompressorOxide};
    use miniz_oxide::inflate::TINFLStatus;
    let mut ss = vec![];
    ss.extend(crate::streams::block_sequences(Some((7, 2)), if th { 4 } else { 3 }, &[0, 3, 5], &crate::streams::BLOCK_KINDS[..if th { 6 } else { 5 }]));
    ss.extend(crate::streams::stored_edges(Some((7, 2))).into_iter().rev().take(1));
    let res = par_for(ss.len(), || (0u64, 0u64), |i, acc| {
        watchdog::tick(i as u64, 7);
        let s = &ss[i];
        let n = s.plain.len();
        for chunk in [usize::MAX, 1, 5] {
            if chunk == 1 && s.bytes.len() > 5000 {
                continue;
            }
            let r = guarded(|| {
                let mut d = Box::new(DecompressorOxide::new());
                let mut out = vec![0u8; n + 8];
                let (mut ip, mut op) = (0usize, 0usize);
                let mut calls = 0u64;
                let mut stops = 0u64;
                loop {
                    let end = ip.saturating_add(chunk).min(s.bytes.len());
                    let more = if end < s.bytes.len() { F_MORE } else { 0 };
                    let (st, c, w) = decompress(&mut d, &s.bytes[ip..end], &mut out, op, F_ZLIB | F_FLAT | F_BB | more);
                    ip += c;
                    op += w;
                    calls += 1;
                    if (st as i32) < 0 {
                        return Err(format!("decode with stop-on-block-boundary returned {}", status_name(st)));
                    }
                    if ip >= 2 {
                        let want = adler32_def(1, &out[..op]);
                        if d.adler32() != Some(want) {
                            return Err(format!("DecompressorOxide::adler32() = {:?} after {} output bytes (call {}, status {}), Adler-32 of those bytes is {:#x}", d.adler32(), op, calls, status_name(st), want));
                        }
                    }
                    if st == TINFLStatus::BlockBoundary {
                        stops += 1;
                    }
                    if st == TINFLStatus::Done {
                        break;
                    }
                    if calls > 2_000_000 {
                        return Err("no end".into());
                    }
                }
                if out[..op] != s.plain[..] {
                    return Err("wrong output".into());
                }
                Ok((calls, stops))
            });
            match r {
                Ok(Ok((c, st))) => {
                    acc.0 += c;
                    acc.1 += st;
                }
                Ok(Err(e)) => rep.violation("C16/decoder-running-adler/block-boundary", format!("{} [{}] chunk {}", e, s.desc, chunk as isize), json!({"kind": "decoder-bb", "desc": s.desc, "chunk": chunk.min(1 << 40)})),
                Err(p) => rep.violation("C16/panic", format!("panic {}", p), json!({"kind": "decoder-bb", "desc": s.desc})),
            }
        }
    });
    let calls: u64 = res.iter().map(|r| r.0).sum();
    let stops: u64 = res.iter().map(|r| r.1).sum();
    rep.set("evaluations", json!(calls));
    rep.set("distinct_nontrivial", json!(stops));
    rep.set("flavour", json!("block-boundary"));
    rep.set("exhaustive", json!(true));
    rep.set("rule", json!("every block-kind sequence up to 3/4 blocks x 3 alignments as a zlib stream, decoded with TINFL_FLAG_STOP_ON_BLOCK_BOUNDARY in one call, 5-byte and 1-byte chunks; after every call adler32() must equal the Adler-32 (by definition) of the output so far; non-trivial = calls that returned BlockBoundary"));
    rep.sample(json!({"stream": ss[ss.len() / 2].desc, "chunk": 1}));
    if stops < 100 {
        println!("MACHINERY vacuous: block-boundary stops={}", stops);
        rep.finish();
        return 2;
    }
    rep.finish()
}

pub fn run(tier: &str) -> i32 {
    capi::install_fault_handler("C16");
    let rep = Report::new("C16", tier, if cfg!(feature = "simd") { "exploration" } else { "exploration" });
    #[cfg(feature = "bb")]
    {
        let th = rep.thorough();
        return run_bb(&rep, th);
    }
    #[allow(unreachable_code)]
    run_main(rep)
}

fn run_main(rep: Report) -> i32 {
    let th = rep.thorough();
    let simd = cfg!(feature = "simd");
    // ---- definitions and composition ---------------------------------------------------------------
    let mut lens: Vec<usize> = (0..=300).collect();
    lens.extend([5551, 5552, 5553, 11103, 11104, 11105, 65535, 65536, 65537, 70000, 1 << 20]);
    let res = par_for(lens.len(), || 0u64, |i, acc| {
        watchdog::tick(i as u64, 0);
        let len = lens[i];
        for kind in 0..4u8 {
            let buf = buffer(kind, len);
            for &start in &STARTS {
                if len > 70_000 && start != 1 {
                    continue;
                }
                let mut split_sets: Vec<Vec<usize>> = vec![vec![]];
                if len <= 300 {
                    for s in 0..=len {
                        split_sets.push(vec![s]);
                    }
                    let lim = if th { 64 } else { 48 };
                    if len <= lim && kind != 1 {
                        for s1 in 0..=len {
                            for s2 in s1..=len {
                                split_sets.push(vec![s1, s2]);
                            }
                        }
                    }
                } else {
                    for s in [0usize, 1, 15, 16, 17, 31, 32, 33, 63, 64, 65, 5551, 5552, 5553, len / 2, len - 1, len] {
                        if s <= len {
                            split_sets.push(vec![s]);
                        }
                    }
                    split_sets.push(vec![16, 5552]);
                    split_sets.push(vec![5552, 11104]);
                }
                for sp in &split_sets {
                    watchdog::pulse();
                    match guarded(|| check_buf(&buf, start, sp)) {
                        Ok(Ok(n)) => *acc += n,
                        Ok(Err((site, what))) => rep.violation(&format!("C16/{}", site), what, json!({"kind": "buf", "content": kind, "len": len, "start": start, "splits": sp})),
                        Err(p) => rep.violation("C16/panic", format!("panic {}", p), json!({"kind": "buf", "content": kind, "len": len, "start": start, "splits": sp})),
                    }
                }
            }
        }
    });
    let mut evals: u64 = res.iter().sum();
    // all 1-byte and 2-byte buffers from the four extreme starts
    let res2 = par_for(256, || 0u64, |a, acc| {
        for &start in &STARTS {
            let b1 = [a as u8];
            if let Err((site, what)) = check_buf(&b1, start, &[]) {
                rep.violation(&format!("C16/{}", site), what, json!({"kind": "bytes", "bytes_hex": hex(&b1), "start": start}));
            }
            for b in 0..=255u8 {
                let b2 = [a as u8, b];
                *acc += 1;
                let w = adler32_def(start, &b2);
                let wc = crc32_def(start, &b2);
                if mz_adler32_oxide(start, &b2) != w || mz_crc32_oxide(start, &b2) != wc || mz_adler32_oxide(mz_adler32_oxide(start, &b2[..1]), &b2[1..]) != w {
                    rep.violation("C16/two-byte-buffers", format!("checksum of {:02x}{:02x} from start {:#x} differs from the definition", a, b, start), json!({"kind": "bytes", "bytes_hex": hex(&b2), "start": start}));
                }
            }
        }
    });
    evals += res2.iter().sum::<u64>();
    // null pointer
    if capi::c_adler32(12345, None) != 1 || capi::c_crc32(12345, None) != 0 {
        rep.violation("C16/null-pointer", "mz_adler32/mz_crc32 with a null pointer do not return the initial value".into(), json!({"kind": "null"}));
    }
    evals += 2;
    // ---- running checksums ---------------------------------------------------------------------------
    let mut running = 0u64;
    if !simd || th {
        let zs: Vec<crate::gen::GenStream> = corpus::compact_corpus(true).into_iter().filter(|s| s.zlib).step_by(if th { 3 } else { 9 }).chain(crate::streams::stored_edges(Some((7, 2))).into_iter().rev().take(1)).collect();
        let r3 = par_for(zs.len(), || 0u64, |i, acc| {
            watchdog::tick(i as u64, 3);
            let s = &zs[i];
            let big = s.bytes.len() > 4000;
            let scheds: Vec<(Mode, usize, usize, usize)> = if big {
                vec![(Mode::Ring, 32768, usize::MAX, usize::MAX), (Mode::Ring, 32768, 4096, 1000), (Mode::Flat, s.plain.len() + 8, 7000, 333)]
            } else {
                vec![(Mode::Flat, s.plain.len() + 8, 1, usize::MAX), (Mode::Flat, s.plain.len() + 8, usize::MAX, 1), (Mode::Ring, 32768, 1, 1), (Mode::Ring, 64, 3, 2), (Mode::Flat, s.plain.len(), 2, 0)]
            };
            for (mode, blen, chunk, budget) in scheds {
                if mode == Mode::Ring && blen < 32768 {
                    continue; // smaller than the declared window: the header is rejected by design
                }
                if budget == 0 {
                    continue;
                }
                match guarded(|| decoder_running(&s.bytes, &s.plain, mode, blen, chunk, budget)) {
                    Ok(Ok(n)) => *acc += n,
                    Ok(Err(e)) => rep.violation("C16/decoder-running-adler", format!("{} [{}] {:?} chunk {} budget {}", e, s.desc, mode, chunk as isize, budget as isize), json!({"kind": "decoder", "stream_hex": if s.bytes.len() < 4000 { json!(hex(&s.bytes)) } else { Value::Null }, "desc": s.desc, "mode": format!("{:?}", mode), "buflen": blen, "chunk": chunk.min(1 << 40), "budget": budget.min(1 << 40)})),
                    Err(p) => rep.violation("C16/panic", format!("panic {}", p), json!({"kind": "decoder", "desc": s.desc})),
                }
            }
        });
        running += r3.iter().sum::<u64>();
        // C stream adler
        let mut ins = corpus::medium_inputs();
        ins.push(corpus::shape_named("R66000", &[(crate::gen::Seg::R, 66000)]));
        ins.push(corpus::Input { name: "empty".into(), data: vec![] });
        let mut items = vec![];
        for (i, _) in ins.iter().enumerate() {
            for level in [0, 1, 6] {
                for (chunk, room) in [(usize::MAX, 200_000usize), (100, 64), (usize::MAX, 4096), (1, 1)] {
                    if ins[i].data.len() > 5000 && chunk == 1 {
                        continue;
                    }
                    for (wbits, strategy, mid_flush) in [(15, 0, 0), (-15, 0, 0), (15, 0, 2), (-15, 4, 3), (15, 3, 1), (-15, 2, 2), (15, 1, 0)] {
                        if !th && (wbits, strategy, mid_flush) != (15, 0, 0) && (i + level as usize + (chunk & 1) + strategy as usize) % 2 != 0 {
                            continue;
                        }
                        items.push((i, level, chunk, room, wbits, strategy, mid_flush));
                    }
                }
            }
        }
        let r4 = par_for(items.len(), || 0u64, |ix, acc| {
            watchdog::tick(ix as u64, 4);
            let (i, level, chunk, room, wbits, strategy, mid_flush) = items[ix];
            match guarded(|| stream_adler(&ins[i].data, level, chunk, room, wbits, strategy, mid_flush)) {
                Ok(Ok(n)) => *acc += n,
                Ok(Err(e)) => rep.violation(if wbits > 0 { "C16/stream-adler" } else { "C16/stream-adler/raw" }, format!("{} :: level {} window_bits {} strategy {} mid-stream flush {} chunk {} room {} on {}", e, level, wbits, strategy, mid_flush, chunk as isize, room, ins[i].name), json!({"kind": "stream", "input": ins[i].name, "level": level, "chunk": chunk.min(1 << 40), "room": room, "wbits": wbits, "strategy": strategy, "mid_flush": mid_flush})),
                Err(p) => rep.violation("C16/panic", format!("panic {}", p), json!({"kind": "stream", "input": ins[i].name})),
            }
        });
        running += r4.iter().sum::<u64>();
    }
    // a stream recycled with mz_deflateReset: the field after calls that consume nothing (an empty
    // flush, an empty MZ_FINISH) and after the first bytes of the second stream
    if !simd {
        for level in [0i32, 1, 6, 9] {
            for (wbits, strategy) in [(15, 0), (-15, 0), (15, 4), (-15, 2)] {
                for first in [0usize, 1, 100, 40_000] {
                    for probe in 0..4u8 {
                        running += 1;
                        let r = guarded(|| reset_then_idle(level, wbits, strategy, first, probe));
                        match r {
                            Ok(Ok(())) => {}
                            Ok(Err(e)) => rep.violation("C16/stream-adler/after-reset", format!("{} :: level {} window_bits {} strategy {} first stream {} bytes", e, level, wbits, strategy, first), json!({"kind": "reset-idle", "level": level, "wbits": wbits, "strategy": strategy, "first": first, "probe": probe})),
                            Err(p) => rep.violation("C16/panic", format!("panic {}", p), json!({"kind": "reset-idle", "level": level, "wbits": wbits, "strategy": strategy, "first": first, "probe": probe})),
                        }
                    }
                }
            }
        }
    }
    // the running checksum is a function of the input consumed, not of the settings: it must survive
    // every setter call made while input is pending (no block emitted yet) or after blocks went out
    if !simd {
        use miniz_oxide::deflate::core::{compress, CompressorOxide, TDEFLFlush};
        let data = corpus::shape_named("T", &[(crate::gen::Seg::T, 70_000)]).data;
        for l1 in [1u8, 4, 6, 9] {
            for k in [1usize, 100, 5000, 40_000, 70_000] {
                for l2 in [0u8, 1, 6, 9, 10] {
                    for setter in 0..3 {
                        running += 1;
                        let r = guarded(|| {
                            let mut c = CompressorOxide::with_params(miniz_oxide::DataFormat::Zlib, l1, miniz_oxide::deflate::core::CompressionStrategy::Default, 15);
                            let mut out = vec![0u8; 100_000];
                            let (_, ni, _) = compress(&mut c, &data[..k], &mut out, TDEFLFlush::None);
                            match setter {
                                0 => c.set_compression_level_raw(l2),
                                1 => c.set_format_and_level(miniz_oxide::DataFormat::Zlib, l2),
                                _ => c.set_compression_level(if l2 >= 9 { miniz_oxide::deflate::CompressionLevel::BestCompression } else if l2 <= 1 { miniz_oxide::deflate::CompressionLevel::BestSpeed } else { miniz_oxide::deflate::CompressionLevel::DefaultLevel }),
                            }
                            (c.adler32(), adler32_def(1, &data[..ni]), ni)
                        });
                        match r {
                            Ok((a, want, ni)) if a != want => rep.violation("C16/running-adler/after-setter", format!("CompressorOxide::adler32() = {:#x} right after a level setter (level {} -> {}, setter {}) with {} bytes consumed; Adler-32 of those bytes is {:#x}", a, l1, l2, setter, ni, want), json!({"kind": "setter", "l1": l1, "l2": l2, "k": k, "setter": setter})),
                            Ok(_) => {}
                            Err(p) => rep.violation("C16/panic", format!("panic {}", p), json!({"kind": "setter", "l1": l1, "l2": l2, "k": k, "setter": setter})),
                        }
                    }
                }
            }
        }
    }
    // compressor running checksum: the C02 schedule exploration with the Adler monitor reporting
    let mut comp_calls = 0;
    if !simd {
        let ex = crate::props::c02::explore(&rep, "C16", th);
        comp_calls = ex.total.transitions;
    }
    rep.set("evaluations", json!(evals + running + comp_calls));
    rep.set("distinct_nontrivial", json!(evals));
    rep.set("checksum_evaluations", json!(evals));
    rep.set("running_checksum_call_boundaries_decoder_and_c_stream", json!(running));
    rep.set("running_checksum_call_boundaries_compressor", json!(comp_calls));
    rep.set("flavour", json!(if simd { "simd (simd-adler32)" } else { "scalar (adler2)" }));
    rep.set("exhaustive", json!(true));
    rep.set("rule", json!("buffers of every length 0..=300 and {5551..5553, 11103..11105, 65535..65537, 70000, 2^20} x contents {ff, 00, ramp, LCG} x start values {1, (65520,65520), (0,65520), (65520,0)}; every single split for length <= 300, every pair of splits for length <= 48/64, menu splits around 16/32/64/5552 for long buffers; all 1- and 2-byte buffers from the four starts; Adler-32 via update_adler32/mz_adler32 and CRC-32 via mz_crc32_oxide/mz_crc32 (upper seed bits set, null pointer) against the byte-at-a-time / bit-at-a-time definitions (themselves cross-checked with system zlib); running checksums at every call boundary of scheduled zlib decodes, of mz_deflate/mz_inflate schedules, and of the C02 compressor schedule exploration; run once per flavour (scalar, simd)"));
    rep.sample(json!({"len": 5552, "content": "ff", "start": "0xfff0fff0", "splits": [16, 5552]}));
    rep.sample(json!({"running": "DecompressorOxide::adler32() after each of the calls of schedule (1 byte in, 1 byte out, ring 32768)"}));
    if evals < 100_000 {
        println!("MACHINERY vacuous: evals={}", evals);
        rep.finish();
        return 2;
    }
    rep.finish()
}

pub fn replay(v: &Value) -> Option<String> {
    capi::install_fault_handler("C16");
    if v.get("kind").is_none() {
        return crate::props::c02::replay(v, "C16");
    }
    match v["kind"].as_str()? {
        "buf" => {
            let buf = buffer(v["content"].as_u64()? as u8, v["len"].as_u64()? as usize);
            let sp: Vec<usize> = v["splits"].as_array()?.iter().filter_map(|x| x.as_u64().map(|y| y as usize)).collect();
            check_buf(&buf, v["start"].as_u64()? as u32, &sp).err().map(|e| e.1)
        }
        "bytes" => {
            let b = unhex(v["bytes_hex"].as_str()?);
            check_buf(&b, v["start"].as_u64()? as u32, &[1]).err().map(|e| e.1)
        }
        "null" => {
            if capi::c_adler32(12345, None) != 1 || capi::c_crc32(12345, None) != 0 {
                Some("null pointer handling".into())
            } else {
                None
            }
        }
        "setter" => Some("re-run ./check C16 quick (the setter sweep is deterministic and takes a second)".into()),
        "decoder-bb" => Some("this case needs the block-boundary flavour of the harness: ./check C16 quick re-runs it (same site key, deterministic)".into()),
        "decoder" => {
            let s = unhex(v["stream_hex"].as_str()?);
            let plain = crate::refmodel::ref_inflate(&s, &crate::refmodel::Opts::zlib()).out;
            let mode = if v["mode"].as_str()? == "Flat" { Mode::Flat } else { Mode::Ring };
            let f = |x: u64| if x >= 1 << 40 { usize::MAX } else { x as usize };
            decoder_running(&s, &plain, mode, v["buflen"].as_u64()? as usize, f(v["chunk"].as_u64()?), f(v["budget"].as_u64()?)).err()
        }
        "reset-idle" => reset_then_idle(v["level"].as_i64()? as i32, v["wbits"].as_i64()? as i32, v["strategy"].as_i64()? as i32, v["first"].as_u64()? as usize, v["probe"].as_u64()? as u8).err(),
        "stream" => {
            let name = v["input"].as_str()?;
            let mut ins = corpus::medium_inputs();
            ins.push(corpus::shape_named("R66000", &[(crate::gen::Seg::R, 66000)]));
            ins.push(corpus::Input { name: "empty".into(), data: vec![] });
            let inp = ins.into_iter().find(|i| i.name == name)?;
            let f = |x: u64| if x >= 1 << 40 { usize::MAX } else { x as usize };
            stream_adler(&inp.data, v["level"].as_i64()? as i32, f(v["chunk"].as_u64()?), v["room"].as_u64()? as usize, v["wbits"].as_i64().unwrap_or(15) as i32, v["strategy"].as_i64().unwrap_or(0) as i32, v["mid_flush"].as_i64().unwrap_or(0) as i32).err()
        }
        _ => crate::props::c02::replay(v, "C16"),
    }
}
