//! One module per property: alphabet, bounds, monitors, oracle.
pub mod selftest;
pub mod c01;
pub mod c02;
pub mod c03;
pub mod c04;
pub mod c05;
pub mod c06;
pub mod c07;
pub mod c09;
pub mod c11;
pub mod c13;
pub mod c14;
pub mod c15;
pub mod c16;
pub mod c17;
pub mod c18;
pub mod c19;

use serde_json::Value;

pub fn run(id: &str, tier: &str) -> i32 {
    match id {
        "C01" => c01::run(tier, false),
        "C10" => c01::run(tier, true),
        "C02" => c02::run(tier, "C02"),
        "C12" => c02::run(tier, "C12"),
        "C03" => c03::run(tier),
        "C04" => c04::run(tier),
        "C05" => c05::run(tier),
        "C06" => c06::run(tier),
        "C09" => c09::run(tier),
        "C11" => c11::run(tier),
        "C13" => c13::run(tier),
        "C14" => c14::run(tier),
        "C15" => c15::run(tier),
        "C16" => c16::run(tier),
        "C17" => c17::run(tier),
        "C18" => c18::run(tier),
        "C19" => c19::run(tier),
        "C07" => c07::run(tier, "C07"),
        "C08" => c07::run(tier, "C08"),
        _ => {
            eprintln!("MACHINERY unknown property {}", id);
            2
        }
    }
}

pub fn replay(id: &str, path: &str) -> i32 {
    let Ok(s) = std::fs::read_to_string(path) else {
        eprintln!("MACHINERY cannot read replay {}", path);
        return 2;
    };
    let Ok(v) = serde_json::from_str::<Value>(&s) else {
        eprintln!("MACHINERY cannot parse replay {}", path);
        return 2;
    };
    if v["kind"].as_str() == Some("unguarded-panic") || v["kind"].as_str() == Some("fault") {
        // the case is located by work item only: the deterministic sweep is run again (it reports
        // the same violation and exits 1 if the library still crashes there)
        let _ = crate::RUNNING_PROP.set(id.to_string());
        crate::watchdog::start(id);
        let code = run(id, "quick");
        if code == 0 {
            println!("replay: property {} holds on this case", id);
        }
        return code;
    }
    // Determinism gate: the plain driver runs the case twice from fresh objects.
    let a = replay_one(id, &v);
    let b = replay_one(id, &v);
    if a != b {
        eprintln!("MACHINERY replay diverged between two runs: {:?} vs {:?}", a, b);
        return 2;
    }
    match a {
        Some(what) => {
            println!("VIOLATION property={} replay={} :: {}", id, path, what);
            1
        }
        None => {
            println!("replay: property {} holds on this case", id);
            0
        }
    }
}

/// Some(description) if the case violates the property.
fn replay_one(id: &str, v: &Value) -> Option<String> {
    match id {
        "C01" | "C10" => c01::replay(v, id == "C10"),
        "C02" | "C12" => c02::replay(v, id),
        "C03" => c03::replay(v),
        "C04" => c04::replay(v),
        "C05" => c05::replay(v),
        "C06" => c06::replay(v),
        "C07" | "C08" => c07::replay(v, id),
        "C09" => c09::replay(v),
        "C11" => c11::replay(v),
        "C13" => c13::replay(v),
        "C14" => c14::replay(v),
        "C15" => c15::replay(v),
        "C16" => c16::replay(v),
        "C17" => c17::replay(v),
        "C18" => c18::replay(v),
        "C19" => c19::replay(v),
        _ => Some(format!("no replay driver for {}", id)),
    }
}
