//! Oracle triangulation (DESIGN 3.4): generator ≡ RefInflate ≡ system zlib, and the checksum
//! definitions ≡ zlib's. A disagreement is a MACHINERY error (exit 2), never a verdict.
use crate::corpus;
use crate::gen::GenStream;
use crate::refmodel::*;
use crate::zlibffi::*;

/// Check that the independent parties agree that `s` is a valid stream for `s.plain`.
pub fn triangulate(s: &GenStream) -> Result<(), String> {
    let o = Opts::fmt(s.zlib);
    let t = ref_inflate(&s.bytes, &o);
    if !t.is_complete() {
        return Err(format!("RefInflate rejects generator stream [{}]: {:?} at bit {}", s.desc, t.verdict, t.bit_at_verdict));
    }
    if t.out != s.plain {
        return Err(format!("RefInflate plaintext differs from generator [{}]", s.desc));
    }
    if t.consumed != s.bytes.len() {
        return Err(format!("RefInflate consumed {} of {} [{}]", t.consumed, s.bytes.len(), s.desc));
    }
    let z = z_inflate(&s.bytes, if s.zlib { 15 } else { -15 }, 1 << 16, 1 << 28);
    if !z.end || z.out != s.plain || z.consumed != s.bytes.len() {
        return Err(format!(
            "zlib disagrees on generator stream [{}]: end={} code={} out_eq={} consumed={}/{}",
            s.desc,
            z.end,
            z.code,
            z.out == s.plain,
            z.consumed,
            s.bytes.len()
        ));
    }
    Ok(())
}

pub fn machinery_fail(msg: &str) -> ! {
    println!("MACHINERY oracle-disagreement: {}", msg);
    eprintln!("MACHINERY oracle-disagreement: {}", msg);
    std::process::exit(2);
}

pub fn run() -> i32 {
    let mut n = 0;
    for s in corpus::compact_corpus(true).iter().chain(corpus::produced_corpus().iter()) {
        if let Err(e) = triangulate(s) {
            println!("MACHINERY oracle-disagreement: {}", e);
            return 2;
        }
        n += 1;
    }
    // all 1- and 2-byte raw inputs: RefInflate Complete <=> zlib STREAM_END, same out/consumed
    let mut classes = [0u64; 3];
    for a in 0..=255u8 {
        for b in 0..=255u8 {
            for l in 1..=2 {
                let d = [a, b];
                let d = &d[..l];
                let t = ref_inflate(d, &Opts::raw());
                let z = z_inflate(d, -15, 4096, 1 << 20);
                let rc = t.is_complete();
                if rc != z.end || (rc && (t.out != z.out || t.consumed != z.consumed)) {
                    println!("MACHINERY oracle-disagreement: input {:02x?}: ref {:?} zlib end={} code={}", d, t.verdict, z.end, z.code);
                    return 2;
                }
                match t.verdict {
                    Verdict::Complete => classes[0] += 1,
                    Verdict::Invalid(_) => {
                        classes[1] += 1;
                        if z.code != -3 {
                            println!("MACHINERY oracle-disagreement: input {:02x?}: ref Invalid, zlib code={}", d, z.code);
                            return 2;
                        }
                    }
                    _ => {
                        classes[2] += 1;
                        if z.code == -3 {
                            // zlib may reject earlier only for its own stricter rules; none at <= 2 bytes
                            println!("MACHINERY oracle-disagreement: input {:02x?}: ref Starved, zlib DATA_ERROR", d);
                            return 2;
                        }
                    }
                }
            }
        }
    }
    // checksum definitions vs zlib
    let mut lcg = crate::util::Lcg(7);
    for len in (0..300).chain([5551, 5552, 5553, 65536, 70001]) {
        let buf: Vec<u8> = (0..len).map(|i| if i % 3 == 0 { 0xff } else { lcg.byte() }).collect();
        if adler32_def(1, &buf) != z_adler32(1, &buf) || crc32_def(0, &buf) != z_crc32(0, &buf) {
            println!("MACHINERY oracle-disagreement: checksum definition vs zlib at len {}", len);
            return 2;
        }
        let mid = len / 3;
        let a = adler32_def(adler32_def(1, &buf[..mid]), &buf[mid..]);
        let c = crc32_def(crc32_def(0, &buf[..mid]), &buf[mid..]);
        if a != z_adler32(1, &buf) || c != z_crc32(0, &buf) {
            println!("MACHINERY oracle-disagreement: checksum composition at len {}", len);
            return 2;
        }
    }
    println!(
        "selftest ok: {} generated/produced streams triangulated; 1-2 byte inputs: {} complete, {} invalid, {} starved; checksums agree",
        n, classes[0], classes[1], classes[2]
    );
    0
}
