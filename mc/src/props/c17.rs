//! C17: the C ABI shim gives the same results as the Rust API, accounts exactly, stays inside
//! the caller's buffers (guard pages) and answers misuse with an error code instead of crashing.
use crate::capi::{self, Place};
use crate::drv::*;
use crate::evidence::Report;
use crate::util::{hex, par_for};
use crate::{corpus, guarded, watchdog};
use libc::{c_int, c_void};
use miniz_oxide::deflate::core::{compress, create_comp_flags_from_zip_params, deflate_flags, CompressorOxide, TDEFLFlush};
use miniz_oxide::deflate::stream::deflate;
use miniz_oxide::inflate::core::{decompress, DecompressorOxide};
use miniz_oxide::inflate::stream::{inflate, InflateState};
use miniz_oxide::MZFlush;
use miniz_oxide_c_api as c;
use serde_json::{json, Value};

extern "C" {
    fn tinfl_decompressor_alloc() -> *mut c::tinfl_decompressor;
    fn tinfl_decompressor_free(c: *mut c::tinfl_decompressor);
    fn tinfl_init(c: *mut c::tinfl_decompressor);
    fn tinfl_get_adler32(c: *mut c::tinfl_decompressor) -> c_int;
}

const LARGE: usize = 100_000;
pub const AVAILS_IN: [u32; 4] = [0, 1, 2, u32::MAX];
pub const AVAILS_OUT: [u32; 4] = [0, 1, 5, LARGE as u32];

#[derive(Clone, Copy, Debug, PartialEq, Eq)]
pub struct Act {
    pub ai: u32,
    pub ao: u32,
    pub flush: i32,
}

/// pseudo flush value: the schedule element is a mz_deflateReset call
pub const RESET: i32 = 1000;

fn acts() -> Vec<Act> {
    let mut v = vec![];
    for flush in 0..=4 {
        for &ai in &AVAILS_IN {
            for &ao in &AVAILS_OUT {
                v.push(Act { ai, ao, flush });
            }
        }
    }
    v
}

/// Apply one schedule to mz_deflate and to deflate() on an equally configured Rust object.
fn deflate_diff(input: &[u8], level: i32, wbits: i32, strategy: i32, sched: &[Act], place: Place) -> Result<u64, String> {
    unsafe {
        let mut zs = capi::new_stream();
        let rc = c::mz_deflateInit2(&mut zs, level, 8, wbits, 9, strategy);
        if rc != 0 {
            return Err(format!("mz_deflateInit2 returned {}", rc));
        }
        let mut rs = Box::new(CompressorOxide::new(deflate_flags::TDEFL_COMPUTE_ADLER32 | create_comp_flags_from_zip_params(level, wbits, strategy)));
        let mut ip = 0usize;
        let mut n = 0;
        for (i, a) in sched.iter().enumerate() {
            if a.flush == RESET {
                // mz_deflateReset <-> CompressorOxide::reset(): the recycled stream must go on behaving
                // like the recycled Rust object (whatever was or was not fed to it before)
                let rc = c::mz_deflateReset(&mut zs);
                n += 1;
                if rc != 0 {
                    c::mz_deflateEnd(&mut zs);
                    return Err(format!("call {}: mz_deflateReset returned {}", i, rc));
                }
                if zs.total_in != 0 || zs.total_out != 0 {
                    c::mz_deflateEnd(&mut zs);
                    return Err(format!("call {}: mz_deflateReset left total_in {} total_out {}", i, zs.total_in, zs.total_out));
                }
                rs.reset();
                continue;
            }
            let k = if a.ai == u32::MAX { input.len() - ip } else { (a.ai as usize).min(input.len() - ip) };
            let o = capi::stream_call(&mut zs, false, input, ip, k, a.ao as usize, a.flush, place).map_err(|e| format!("call {}: accounting: {}", i, e))?;
            let mut rbuf = vec![0u8; a.ao as usize];
            let rr = match MZFlush::new(a.flush) {
                Ok(f) => deflate(&mut rs, &input[ip..ip + k], &mut rbuf, f),
                Err(e) => miniz_oxide::StreamResult::error(e),
            };
            n += 1;
            let rcode = mzres_code(&rr.status);
            if o.ret != rcode || o.consumed != rr.bytes_consumed || o.written != rr.bytes_written || o.out[..] != rbuf[..rr.bytes_written] {
                c::mz_deflateEnd(&mut zs);
                return Err(format!(
                    "call {} (avail_in {}, avail_out {}, flush {}): mz_deflate -> ({}, consumed {}, wrote {}), deflate() -> ({}, consumed {}, wrote {}){}",
                    i, k, a.ao, a.flush, o.ret, o.consumed, o.written, rcode, rr.bytes_consumed, rr.bytes_written,
                    if o.out[..] != rbuf[..rr.bytes_written.min(rbuf.len())] { ", bytes differ" } else { "" }
                ));
            }
            if o.adler != rs.adler32() {
                c::mz_deflateEnd(&mut zs);
                return Err(format!("call {}: mz_stream.adler {:#x} != CompressorOxide::adler32() {:#x}", i, o.adler, rs.adler32()));
            }
            ip += o.consumed;
        }
        if c::mz_deflateEnd(&mut zs) != 0 {
            return Err("mz_deflateEnd did not return MZ_OK".into());
        }
        Ok(n)
    }
}

fn inflate_diff(stream: &[u8], wbits: i32, sched: &[Act], place: Place) -> Result<u64, String> {
    unsafe {
        let mut zs = capi::new_stream();
        let rc = c::mz_inflateInit2(&mut zs, wbits);
        if rc != 0 {
            return Err(format!("mz_inflateInit2 returned {}", rc));
        }
        let mut rs = InflateState::new_boxed_with_window_bits(wbits);
        let mut ip = 0usize;
        let mut n = 0;
        for (i, a) in sched.iter().enumerate() {
            let k = if a.ai == u32::MAX { stream.len() - ip } else { (a.ai as usize).min(stream.len() - ip) };
            let o = capi::stream_call(&mut zs, true, stream, ip, k, a.ao as usize, a.flush, place).map_err(|e| format!("call {}: accounting: {}", i, e))?;
            let mut rbuf = vec![0u8; a.ao as usize];
            let rr = match MZFlush::new(a.flush) {
                Ok(f) => inflate(&mut rs, &stream[ip..ip + k], &mut rbuf, f),
                Err(e) => miniz_oxide::StreamResult::error(e),
            };
            n += 1;
            let rcode = mzres_code(&rr.status);
            if o.ret != rcode || o.consumed != rr.bytes_consumed || o.written != rr.bytes_written || o.out[..] != rbuf[..rr.bytes_written] {
                c::mz_inflateEnd(&mut zs);
                return Err(format!(
                    "call {} (avail_in {}, avail_out {}, flush {}): mz_inflate -> ({}, consumed {}, wrote {}), inflate() -> ({}, consumed {}, wrote {})",
                    i, k, a.ao, a.flush, o.ret, o.consumed, o.written, rcode, rr.bytes_consumed, rr.bytes_written
                ));
            }
            ip += o.consumed;
        }
        c::mz_inflateEnd(&mut zs);
        Ok(n)
    }
}

/// One-shot pairs: tdefl_* / tinfl_* / mz_compress2 / mz_uncompress against their Rust counterparts.
fn pairwise(input: &[u8], level: i32, zlib: bool, place: Place) -> Result<u64, String> {
    let mut n = 0;
    let wb = if zlib { 15 } else { -15 };
    let flags = create_comp_flags_from_zip_params(level, wb, 0);
    // Rust reference
    let mut rc = CompressorOxide::new(flags);
    let want = crate::props::c01::compress_all(&mut rc, input)?;
    // tdefl_compress_mem_to_heap
    let h = capi::tdefl_mem_to_heap(input, flags as i32, place).ok_or("tdefl_compress_mem_to_heap returned NULL")?;
    n += 1;
    if h != want {
        return Err(format!("tdefl_compress_mem_to_heap: {} bytes, Rust compress: {} bytes (or bytes differ)", h.len(), want.len()));
    }
    // tdefl_compress_mem_to_mem: exact capacity, capacity - 1, large
    for cap in [want.len(), want.len().saturating_sub(1), want.len() + 100] {
        let (sz, out) = capi::tdefl_mem_to_mem(input, cap, flags as i32, place);
        n += 1;
        if cap >= want.len() {
            if sz != want.len() || out != want {
                return Err(format!("tdefl_compress_mem_to_mem(capacity {}): returned {} (expected {})", cap, sz, want.len()));
            }
        } else if sz != 0 {
            return Err(format!("tdefl_compress_mem_to_mem(capacity {} < needed {}): returned {} instead of 0", cap, want.len(), sz));
        }
    }
    // tdefl_compress streaming with buffers (allocate/init/compress/deallocate)
    unsafe {
        let d = c::tdefl_allocate();
        if c::tdefl_init(d.as_mut(), None, std::ptr::null_mut(), flags as c_int) as i32 != 0 {
            c::tdefl_deallocate(d);
            return Err("tdefl_init failed".into());
        }
        let mut r2 = CompressorOxide::new(flags);
        let mut ip = 0;
        let mut got = vec![];
        let mut guard = 0;
        loop {
            let k = (input.len() - ip).min(700);
            let cap = 97usize;
            let (inp, _) = capi::pooled(k, place, 7);
            std::ptr::copy_nonoverlapping(input.as_ptr().add(ip), inp, k);
            let (outp, _) = capi::pooled(cap, place, 8);
            let mut in_sz = k;
            let mut out_sz = cap;
            let fl = if ip + k == input.len() { c::tdefl_flush::TDEFL_FINISH } else { c::tdefl_flush::TDEFL_NO_FLUSH };
            let rfl = if ip + k == input.len() { TDEFLFlush::Finish } else { TDEFLFlush::None };
            let st = c::tdefl_compress(d.as_mut(), inp as *const c_void, Some(&mut in_sz), outp as *mut c_void, Some(&mut out_sz), fl);
            let mut rbuf = vec![0u8; cap];
            let (rst, rin, rout) = compress(&mut r2, &input[ip..ip + k], &mut rbuf, rfl);
            n += 1;
            let stc = st as i32;
            if stc != rst as i32 || in_sz != rin || out_sz != rout || std::slice::from_raw_parts(outp, out_sz.min(cap)) != &rbuf[..rout] {
                c::tdefl_deallocate(d);
                return Err(format!("tdefl_compress -> ({}, {}, {}), compress -> ({}, {}, {})", stc, in_sz, out_sz, rst as i32, rin, rout));
            }
            if c::tdefl_get_adler32(d.as_mut()) != r2.adler32() {
                c::tdefl_deallocate(d);
                return Err("tdefl_get_adler32 differs from CompressorOxide::adler32".into());
            }
            got.extend_from_slice(&rbuf[..rout]);
            ip += rin;
            if stc == 1 {
                break;
            }
            guard += 1;
            if stc < 0 || guard > 100_000 {
                c::tdefl_deallocate(d);
                return Err(format!("tdefl_compress loop: status {}", stc));
            }
        }
        c::tdefl_deallocate(d);
        // (chunked and one-shot output may legitimately differ in block structure; both must decode)
        let back = if zlib { miniz_oxide::inflate::decompress_to_vec_zlib(&got) } else { miniz_oxide::inflate::decompress_to_vec(&got) };
        if back.as_deref().ok() != Some(input) {
            return Err("tdefl_compress streamed output does not decode to the input".into());
        }
    }
    // decode side
    let zf = if zlib { F_ZLIB } else { 0 };
    let heap = capi::tinfl_mem_to_heap(&want, zf as i32, place).ok_or("tinfl_decompress_mem_to_heap returned NULL on a valid stream")?;
    n += 1;
    if heap != input {
        return Err("tinfl_decompress_mem_to_heap output differs".into());
    }
    for cap in [input.len(), input.len().saturating_sub(1), input.len() + 50] {
        let (sz, out) = capi::tinfl_mem_to_mem(&want, cap, zf as i32, place);
        n += 1;
        if cap >= input.len() {
            if sz != input.len() || out != input {
                return Err(format!("tinfl_decompress_mem_to_mem(capacity {}): returned {}", cap, sz as isize));
            }
        } else if sz != usize::MAX {
            return Err(format!("tinfl_decompress_mem_to_mem(capacity {} < needed {}) returned {} instead of the failure value", cap, input.len(), sz));
        }
    }
    // tinfl_decompress with a wrapping window of every size class (empty, 1, 2, small, 32 KiB, and
    // the non-powers of two the core rejects) at three offsets: first call vs decompress()
    unsafe {
        for &w in &[0usize, 1, 2, 4, 64, 32768, 3, 100] {
            let mut offs = vec![0usize, w / 2, w.saturating_sub(1)];
            offs.dedup();
            for &o in &offs {
                for more in [0, F_MORE] {
                    let r = tinfl_decompressor_alloc();
                    tinfl_init(r);
                    let mut rr = DecompressorOxide::new();
                    let k = want.len().min(300);
                    let (st, cin, cout, obytes) = capi::tinfl_once(r, &want[..k], w, o, zf | more, place);
                    let mut rbuf = vec![0u8; w];
                    let (rst, rin, rout) = decompress(&mut rr, &want[..k], &mut rbuf, o, zf | more);
                    tinfl_decompressor_free(r);
                    n += 1;
                    let wn = rout.min(w - o);
                    if st != rst as i32 || cin != rin || cout != rout || obytes[..wn.min(obytes.len())] != rbuf[o..o + wn] {
                        return Err(format!("tinfl_decompress, wrapping window of {} bytes at offset {}, flags {:#x} -> ({}, {}, {}), decompress -> ({}, {}, {})", w, o, zf | more, st, cin, cout, rst as i32, rin, rout));
                    }
                }
            }
        }
    }
    // tinfl_decompress chunked vs decompress
    unsafe {
        let r = tinfl_decompressor_alloc();
        tinfl_init(r);
        let mut rr = DecompressorOxide::new();
        let cap = input.len() + 8;
        let mut rbuf = vec![0u8; cap];
        let (mut ip, mut op) = (0usize, 0usize);
        let mut guard = 0;
        loop {
            let k = (want.len() - ip).min(13);
            let more = if ip + k < want.len() { F_MORE } else { 0 };
            let (st, cin, cout, obytes) = capi::tinfl_once(r, &want[ip..ip + k], cap, op, zf | F_FLAT | more, place);
            let (rst, rin, rout) = decompress(&mut rr, &want[ip..ip + k], &mut rbuf, op, zf | F_FLAT | more);
            n += 1;
            if st != rst as i32 || cin != rin || cout != rout || obytes[..] != rbuf[op..op + rout] {
                tinfl_decompressor_free(r);
                return Err(format!("tinfl_decompress -> ({}, {}, {}), decompress -> ({}, {}, {})", st, cin, cout, rst as i32, rin, rout));
            }
            if zlib && tinfl_get_adler32(r) as u32 != rr.adler32().unwrap_or(0) {
                tinfl_decompressor_free(r);
                return Err("tinfl_get_adler32 differs from DecompressorOxide::adler32".into());
            }
            ip += rin;
            op += rout;
            guard += 1;
            if st <= 0 || guard > 100_000 {
                break;
            }
        }
        tinfl_decompressor_free(r);
        if rbuf[..op] != input[..] {
            return Err("tinfl_decompress chunked output differs".into());
        }
    }
    if zlib {
        let (rc2, out) = capi::compress2(input, level, capi::compress_bound(input.len()), place);
        n += 1;
        // mz_compress2 sets TDEFL_COMPUTE_ADLER32 too: same bytes as the Rust path with the same flags
        let mut rcx = CompressorOxide::new(deflate_flags::TDEFL_COMPUTE_ADLER32 | flags);
        let want2 = crate::props::c01::compress_all(&mut rcx, input)?;
        if rc2 != 0 || out != want2 {
            return Err(format!("mz_compress2(level {}) returned {} / {} bytes, Rust: {} bytes", level, rc2, out.len(), want2.len()));
        }
        let (rc3, back) = capi::uncompress(&out, input.len(), place);
        n += 1;
        if rc3 != 0 || back != input {
            return Err(format!("mz_uncompress returned {} ({} bytes)", rc3, back.len()));
        }
        if input.len() > 0 {
            let (rc4, _) = capi::uncompress(&out, input.len() - 1, place);
            n += 1;
            if rc4 >= 0 {
                return Err(format!("mz_uncompress into a destination one byte too small returned {}", rc4));
            }
        }
    }
    Ok(n)
}


/// Collector for the put-buffer callbacks: appends to a Vec, fails from the `fail_at`-th call on.
struct Sink {
    data: Vec<u8>,
    calls: usize,
    fail_at: usize,
    /// what an accepting callback returns: any non-zero int means "ok" (mz_bool)
    ok_value: i32,
}

unsafe extern "C" fn sink_put(buf: *const c_void, len: c_int, user: *mut c_void) -> i32 {
    let s = &mut *(user as *mut Sink);
    s.calls += 1;
    if s.calls > s.fail_at || len < 0 {
        return 0;
    }
    s.data.extend_from_slice(std::slice::from_raw_parts(buf as *const u8, len as usize));
    if s.ok_value == i32::MIN { len.max(1) } else { s.ok_value }
}

/// The callback-driven C functions against compress_to_output: tdefl_init(put_buf) +
/// tdefl_compress_buffer in chunks with every flush value, tdefl_get_prev_return_status,
/// tdefl_get_adler32, a callback that starts failing at its k-th call, tdefl_compress with a
/// callback *and* an output buffer (must be refused), tdefl_compress_mem_to_output, mz_compress,
/// tdefl_create_comp_flags_from_zip_params.
fn callback_family(input: &[u8], level: i32, zlib: bool, place: Place) -> Result<u64, String> {
    use miniz_oxide::deflate::core::compress_to_output;
    let mut n = 0u64;
    let wb = if zlib { 15 } else { -15 };
    let flags = create_comp_flags_from_zip_params(level, wb, 0);
    unsafe {
        for chunk in [usize::MAX, 1000, 37] {
            if chunk == 37 && input.len() > 3000 {
                continue;
            }
            for mid in [0u8, 2, 3] {
                for fail_at in [usize::MAX, 0, 1, 2] {
                    let mut sink = Sink { data: vec![], calls: 0, fail_at, ok_value: [1, 2, -1, 256, i32::MIN][(fail_at.wrapping_add(input.len())) % 5] };
                    let d = c::tdefl_allocate();
                    if c::tdefl_init(d.as_mut(), Some(sink_put), &mut sink as *mut Sink as *mut c_void, flags as c_int) as i32 != 0 {
                        c::tdefl_deallocate(d);
                        return Err("tdefl_init with a callback failed".into());
                    }
                    let mut r = CompressorOxide::new(flags);
                    let mut rdata: Vec<u8> = vec![];
                    let mut rcalls = 0usize;
                    let mut ip = 0;
                    loop {
                        let k = chunk.min(input.len() - ip);
                        let last = ip + k == input.len();
                        let (cfl, rfl) = if last {
                            (c::tdefl_flush::TDEFL_FINISH, TDEFLFlush::Finish)
                        } else {
                            match mid {
                                2 => (c::tdefl_flush::TDEFL_SYNC_FLUSH, TDEFLFlush::Sync),
                                3 => (c::tdefl_flush::TDEFL_FULL_FLUSH, TDEFLFlush::Full),
                                _ => (c::tdefl_flush::TDEFL_NO_FLUSH, TDEFLFlush::None),
                            }
                        };
                        let (inp, _) = capi::pooled(k, place, 9);
                        std::ptr::copy_nonoverlapping(input.as_ptr().add(ip), inp, k);
                        let st = c::tdefl_compress_buffer(d.as_mut(), inp as *const c_void, k, cfl) as i32;
                        let (rst, rin) = compress_to_output(&mut r, &input[ip..ip + k], rfl, |o: &[u8]| {
                            rcalls += 1;
                            if rcalls > fail_at {
                                return false;
                            }
                            rdata.extend_from_slice(o);
                            true
                        });
                        n += 1;
                        let prev = c::tdefl_get_prev_return_status(d.as_mut()) as i32;
                        if st != rst as i32 || sink.data != rdata || sink.calls != rcalls {
                            c::tdefl_deallocate(d);
                            return Err(format!("tdefl_compress_buffer (callback) -> {} with {} bytes in {} callback calls, compress_to_output -> {} with {} bytes in {} calls (chunk {}, flush {}, callback fails at call {})", st, sink.data.len(), sink.calls, rst as i32, rdata.len(), rcalls, chunk as isize, mid, fail_at as isize));
                        }
                        if prev != r.prev_return_status() as i32 {
                            c::tdefl_deallocate(d);
                            return Err(format!("tdefl_get_prev_return_status {} != CompressorOxide::prev_return_status {}", prev, r.prev_return_status() as i32));
                        }
                        if c::tdefl_get_adler32(d.as_mut()) != r.adler32() {
                            c::tdefl_deallocate(d);
                            return Err("tdefl_get_adler32 differs from CompressorOxide::adler32 (callback mode)".into());
                        }
                        ip += rin;
                        if st != 0 || rin == 0 && k != 0 {
                            break;
                        }
                        if last {
                            break;
                        }
                    }
                    if fail_at == usize::MAX {
                        let back = if zlib { miniz_oxide::inflate::decompress_to_vec_zlib(&sink.data) } else { miniz_oxide::inflate::decompress_to_vec(&sink.data) };
                        if back.as_deref().ok() != Some(input) {
                            c::tdefl_deallocate(d);
                            return Err("callback-collected output does not decode to the input".into());
                        }
                        // a callback is installed: passing an output buffer as well must be refused
                        let mut ob = [0u8; 64];
                        let (mut a, mut b) = (0usize, ob.len());
                        let st = c::tdefl_compress(d.as_mut(), std::ptr::null(), Some(&mut a), ob.as_mut_ptr() as *mut c_void, Some(&mut b), c::tdefl_flush::TDEFL_FINISH) as i32;
                        n += 1;
                        if st != -2 || a != 0 || b != 0 {
                            c::tdefl_deallocate(d);
                            return Err(format!("tdefl_compress with both a callback and an output buffer returned {} (in {}, out {}) instead of TDEFL_STATUS_BAD_PARAM", st, a, b));
                        }
                    }
                    c::tdefl_deallocate(d);
                }
            }
        }
        // tdefl_compress_mem_to_output
        let mut rc = CompressorOxide::new(flags);
        let want = crate::props::c01::compress_all(&mut rc, input)?;
        for fail_at in [usize::MAX, 0] {
            let mut sink = Sink { data: vec![], calls: 0, fail_at, ok_value: [1, 2, -1, 256, i32::MIN][(fail_at.wrapping_add(input.len())) % 5] };
            let (inp, _) = capi::pooled(input.len(), place, 9);
            std::ptr::copy_nonoverlapping(input.as_ptr(), inp, input.len());
            let ok = c::tdefl_compress_mem_to_output(inp as *const c_void, input.len(), Some(sink_put), &mut sink as *mut Sink as *mut c_void, flags as c_int);
            n += 1;
            if fail_at == usize::MAX {
                if ok == 0 || sink.data != want {
                    return Err(format!("tdefl_compress_mem_to_output returned {} with {} bytes, Rust compress gives {} bytes (or bytes differ)", ok, sink.data.len(), want.len()));
                }
            } else if ok != 0 {
                return Err("tdefl_compress_mem_to_output reported success although the callback refused the data".into());
            }
        }
        if zlib {
            // mz_compress == mz_compress2 at the default level
            let cap = capi::compress_bound(input.len());
            let (inp, _) = capi::pooled(input.len(), place, 2);
            std::ptr::copy_nonoverlapping(input.as_ptr(), inp, input.len());
            let (outp, _) = capi::pooled(cap, place, 3);
            let mut dl: libc::c_ulong = cap as libc::c_ulong;
            let r1 = c::mz_compress(outp, &mut dl, inp, input.len() as libc::c_ulong);
            let got = std::slice::from_raw_parts(outp, (dl as usize).min(cap)).to_vec();
            let (r2, want2) = capi::compress2(input, -1, cap, place);
            n += 2;
            if r1 != 0 || r2 != 0 || got != want2 {
                return Err(format!("mz_compress returned {} with {} bytes, mz_compress2(level -1) returned {} with {} bytes", r1, got.len(), r2, want2.len()));
            }
        }
    }
    Ok(n)
}


/// One compressor object re-initialised with tdefl_init between two jobs, in all four
/// combinations of (callback, caller buffer) mode: the second job must behave like the Rust call
/// on a new CompressorOxide, whatever the first job was and however far it got.
fn reinit_family(input: &[u8], level: i32, zlib: bool, place: Place) -> Result<u64, String> {
    use miniz_oxide::deflate::core::compress_to_output;
    let mut n = 0u64;
    let flags = create_comp_flags_from_zip_params(level, if zlib { 15 } else { -15 }, 0);
    unsafe {
        for first_cb in [false, true] {
            for second_cb in [false, true] {
                for first_len in [0usize, input.len().min(300), input.len()] {
                    let mut sink1 = Sink { data: vec![], calls: 0, fail_at: usize::MAX, ok_value: 1 };
                    let mut sink2 = Sink { data: vec![], calls: 0, fail_at: usize::MAX, ok_value: 1 };
                    let d = c::tdefl_allocate();
                    let cb1: Option<unsafe extern "C" fn(*const c_void, c_int, *mut c_void) -> i32> = if first_cb { Some(sink_put) } else { None };
                    if c::tdefl_init(d.as_mut(), cb1, &mut sink1 as *mut Sink as *mut c_void, flags as c_int) as i32 != 0 {
                        c::tdefl_deallocate(d);
                        return Err("tdefl_init (first job) failed".into());
                    }
                    // first job: first_len bytes, not finished (abandoned)
                    let (inp, _) = capi::pooled(first_len, place, 10);
                    std::ptr::copy_nonoverlapping(input.as_ptr(), inp, first_len);
                    if first_cb {
                        let _ = c::tdefl_compress_buffer(d.as_mut(), inp as *const c_void, first_len, c::tdefl_flush::TDEFL_SYNC_FLUSH);
                    } else {
                        let (outp, _) = capi::pooled(LARGE, place, 11);
                        let (mut a, mut b) = (first_len, LARGE);
                        let _ = c::tdefl_compress(d.as_mut(), inp as *const c_void, Some(&mut a), outp as *mut c_void, Some(&mut b), c::tdefl_flush::TDEFL_SYNC_FLUSH);
                    }
                    n += 1;
                    // second job on the re-initialised object
                    let cb2: Option<unsafe extern "C" fn(*const c_void, c_int, *mut c_void) -> i32> = if second_cb { Some(sink_put) } else { None };
                    if c::tdefl_init(d.as_mut(), cb2, &mut sink2 as *mut Sink as *mut c_void, flags as c_int) as i32 != 0 {
                        c::tdefl_deallocate(d);
                        return Err("tdefl_init (second job) failed".into());
                    }
                    let (inp, _) = capi::pooled(input.len(), place, 10);
                    std::ptr::copy_nonoverlapping(input.as_ptr(), inp, input.len());
                    let mut r = CompressorOxide::new(flags);
                    let what = format!("first job: {} bytes in {} mode, second job in {} mode", first_len, if first_cb { "callback" } else { "buffer" }, if second_cb { "callback" } else { "buffer" });
                    if second_cb {
                        let st = c::tdefl_compress_buffer(d.as_mut(), inp as *const c_void, input.len(), c::tdefl_flush::TDEFL_FINISH) as i32;
                        let mut rdata = vec![];
                        let (rst, _) = compress_to_output(&mut r, input, TDEFLFlush::Finish, |o: &[u8]| {
                            rdata.extend_from_slice(o);
                            true
                        });
                        n += 1;
                        if st != rst as i32 || sink2.data != rdata {
                            c::tdefl_deallocate(d);
                            return Err(format!("re-initialised compressor ({}): tdefl_compress_buffer -> {} with {} bytes, Rust -> {} with {} bytes", what, st, sink2.data.len(), rst as i32, rdata.len()));
                        }
                    } else {
                        let cap = input.len() + input.len() / 4 + 400;
                        let (outp, _) = capi::pooled(cap, place, 11);
                        let (mut a, mut b) = (input.len(), cap);
                        let st = c::tdefl_compress(d.as_mut(), inp as *const c_void, Some(&mut a), outp as *mut c_void, Some(&mut b), c::tdefl_flush::TDEFL_FINISH) as i32;
                        let mut rbuf = vec![0u8; cap];
                        let (rst, rin, rout) = compress(&mut r, input, &mut rbuf, TDEFLFlush::Finish);
                        n += 1;
                        if st != rst as i32 || a != rin || b != rout || std::slice::from_raw_parts(outp, b.min(cap)) != &rbuf[..rout] {
                            c::tdefl_deallocate(d);
                            return Err(format!("re-initialised compressor ({}): tdefl_compress -> ({}, {}, {}), Rust compress -> ({}, {}, {})", what, st, a, b, rst as i32, rin, rout));
                        }
                        if sink1.calls != 0 && !first_cb || sink2.calls != 0 {
                            c::tdefl_deallocate(d);
                            return Err(format!("re-initialised compressor ({}): a put-buffer callback was invoked in buffer mode", what));
                        }
                    }
                    c::tdefl_deallocate(d);
                }
            }
        }
    }
    Ok(n)
}


/// mz_inflateInit2 called again on a live inflate stream (no mz_inflateEnd), same and other
/// framing: the stream must then behave like InflateState::new_boxed_with_window_bits - also for
/// input that can see the window (a stream whose matches reach before its own start).
fn reinit_inflate_family(place: Place) -> Result<u64, String> {
    let mut n = 0u64;
    let a: Vec<u8> = (0..40_000usize).map(|i| b'A' + (i % 23) as u8).collect();
    let probe = crate::props::c18::before_start_window_dump();
    unsafe {
        for first_wb in [-15i32, 15] {
            for second_wb in [-15i32] {
                for sched in [(usize::MAX, 100_000usize), (7usize, 1000usize)] {
                    let first = if first_wb > 0 { miniz_oxide::deflate::compress_to_vec_zlib(&a, 6) } else { miniz_oxide::deflate::compress_to_vec(&a, 6) };
                    let mut zs = capi::new_stream();
                    if c::mz_inflateInit2(&mut zs, first_wb) != 0 {
                        return Err("mz_inflateInit2 failed".into());
                    }
                    let mut ip = 0;
                    for _ in 0..1000 {
                        let o = capi::stream_call(&mut zs, true, &first, ip, first.len() - ip, 100_000, 0, place).map_err(|e| format!("accounting: {}", e))?;
                        ip += o.consumed;
                        n += 1;
                        if o.ret != 0 {
                            break;
                        }
                    }
                    let rc = c::mz_inflateInit2(&mut zs, second_wb);
                    if rc != 0 {
                        c::mz_inflateEnd(&mut zs);
                        return Err(format!("mz_inflateInit2 on a live stream returned {}", rc));
                    }
                    let mut rs = InflateState::new_boxed_with_window_bits(second_wb);
                    let data = &probe.bytes;
                    let mut ip = 0;
                    for i in 0..100_000 {
                        let k = sched.0.min(data.len() - ip);
                        let o = capi::stream_call(&mut zs, true, data, ip, k, sched.1, 0, place).map_err(|e| format!("accounting: {}", e))?;
                        let mut rbuf = vec![0u8; sched.1];
                        let rr = inflate(&mut rs, &data[ip..ip + k], &mut rbuf, MZFlush::None);
                        n += 1;
                        let rcode = mzres_code(&rr.status);
                        if o.ret != rcode || o.consumed != rr.bytes_consumed || o.written != rr.bytes_written || o.out[..] != rbuf[..rr.bytes_written] {
                            c::mz_inflateEnd(&mut zs);
                            return Err(format!("re-initialised live inflate stream (window_bits {} then {}), call {}: mz_inflate -> ({}, {}, {}), inflate() on a new state -> ({}, {}, {}){}", first_wb, second_wb, i, o.ret, o.consumed, o.written, rcode, rr.bytes_consumed, rr.bytes_written, if o.out[..] != rbuf[..rr.bytes_written.min(rbuf.len())] { ", bytes differ" } else { "" }));
                        }
                        ip += o.consumed;
                        if o.ret != 0 || (o.consumed == 0 && o.written == 0) {
                            break;
                        }
                    }
                    c::mz_inflateEnd(&mut zs);
                }
            }
        }
    }
    Ok(n)
}

/// tdefl_create_comp_flags_from_zip_params == create_comp_flags_from_zip_params on every argument triple.
fn flags_sweep(rep: &Report) -> u64 {
    let mut n = 0;
    for level in -3..=12 {
        for wbits in [-16, -15, -8, -1, 0, 1, 8, 9, 12, 15, 16] {
            for strat in -1..=5 {
                n += 1;
                let a = c::tdefl_create_comp_flags_from_zip_params(level, wbits, strat);
                let b = create_comp_flags_from_zip_params(level, wbits, strat);
                if a != b {
                    rep.violation("C17/pairwise/tdefl_create_comp_flags_from_zip_params", format!("tdefl_create_comp_flags_from_zip_params({}, {}, {}) = {:#x}, Rust function gives {:#x}", level, wbits, strat, a, b), json!({"kind": "flags", "level": level, "wbits": wbits, "strat": strat}));
                }
            }
        }
    }
    n
}

// ---------------------------------------------------------------------------------------
// misuse: every case runs in a child process, so a crash is observed instead of suffered
// ---------------------------------------------------------------------------------------

pub const MISUSE: &[&str] = &[
    "deflate-null-stream", "inflate-null-stream", "deflateInit2-null-stream", "inflateInit2-null-stream", "deflateEnd-null-stream", "inflateEnd-null-stream", "deflateReset-null-stream",
    "deflate-null-next_in", "deflate-null-next_out", "inflate-null-next_in", "inflate-null-next_out",
    "deflate-on-inflate-stream", "inflate-on-deflate-stream", "deflateEnd-on-inflate-stream", "inflateEnd-on-deflate-stream", "deflateReset-on-inflate-stream",
    "deflateInit-with-zalloc", "inflateInit-with-zfree", "deflate-with-zalloc-set-later",
    "deflate-after-end", "inflate-after-end", "deflate-uninitialised", "inflate-uninitialised", "reset-then-use",
    "compress2-null-dest_len", "uncompress-null-dest_len", "compress2-null-dest", "uncompress-null-dest", "compress2-null-source",
    "tdefl_compress-null-compressor", "tdefl_compress-null-in", "tdefl_compress-null-out", "tdefl_compress-uninitialised", "tdefl_init-null", "tdefl_get_adler32-null", "tdefl_mem_to_heap-null-len", "tdefl_mem_to_mem-null-out", "tdefl_mem_to_output-null-func",
    "tinfl_decompress-null-decompressor", "tinfl_init-null", "tinfl_get_adler32-null", "tinfl_decompress-null-sizes", "tinfl_mem_to_heap-null-len", "tinfl_mem_to_mem-null-out", "tinfl_mem_to_mem-null-src",
    "adler32-null", "crc32-null",
];

unsafe extern "C" fn dummy_alloc(_o: *mut c_void, _n: usize, _s: usize) -> *mut c_void {
    std::ptr::null_mut()
}
unsafe extern "C" fn dummy_free(_o: *mut c_void, _p: *mut c_void) {}

/// Runs one misuse case in this process and prints "RET <code>" (child side).
pub fn misuse_child(name: &str) -> i32 {
    unsafe {
        let data = b"some input data some input data";
        let mut out = [0u8; 256];
        let mut zs = capi::new_stream();
        let ret: i64 = match name {
            "deflate-null-stream" => c::mz_deflate(std::ptr::null_mut(), 0) as i64,
            "inflate-null-stream" => c::mz_inflate(std::ptr::null_mut(), 0) as i64,
            "deflateInit2-null-stream" => c::mz_deflateInit2(std::ptr::null_mut(), 6, 8, 15, 9, 0) as i64,
            "inflateInit2-null-stream" => c::mz_inflateInit2(std::ptr::null_mut(), 15) as i64,
            "deflateEnd-null-stream" => c::mz_deflateEnd(std::ptr::null_mut()) as i64,
            "inflateEnd-null-stream" => c::mz_inflateEnd(std::ptr::null_mut()) as i64,
            "deflateReset-null-stream" => c::mz_deflateReset(std::ptr::null_mut()) as i64,
            "deflate-null-next_in" | "deflate-null-next_out" => {
                c::mz_deflateInit(&mut zs, 6);
                zs.next_in = if name.ends_with("next_in") { std::ptr::null() } else { data.as_ptr() };
                zs.avail_in = data.len() as u32;
                zs.next_out = if name.ends_with("next_out") { std::ptr::null_mut() } else { out.as_mut_ptr() };
                zs.avail_out = out.len() as u32;
                c::mz_deflate(&mut zs, 4) as i64
            }
            "inflate-null-next_in" | "inflate-null-next_out" => {
                c::mz_inflateInit(&mut zs);
                zs.next_in = if name.ends_with("next_in") { std::ptr::null() } else { data.as_ptr() };
                zs.avail_in = data.len() as u32;
                zs.next_out = if name.ends_with("next_out") { std::ptr::null_mut() } else { out.as_mut_ptr() };
                zs.avail_out = out.len() as u32;
                c::mz_inflate(&mut zs, 0) as i64
            }
            "deflate-on-inflate-stream" | "deflateEnd-on-inflate-stream" | "deflateReset-on-inflate-stream" => {
                c::mz_inflateInit(&mut zs);
                zs.next_in = data.as_ptr();
                zs.avail_in = data.len() as u32;
                zs.next_out = out.as_mut_ptr();
                zs.avail_out = out.len() as u32;
                match name {
                    "deflate-on-inflate-stream" => c::mz_deflate(&mut zs, 4) as i64,
                    "deflateEnd-on-inflate-stream" => c::mz_deflateEnd(&mut zs) as i64,
                    _ => c::mz_deflateReset(&mut zs) as i64,
                }
            }
            "inflate-on-deflate-stream" | "inflateEnd-on-deflate-stream" => {
                c::mz_deflateInit(&mut zs, 6);
                zs.next_in = data.as_ptr();
                zs.avail_in = data.len() as u32;
                zs.next_out = out.as_mut_ptr();
                zs.avail_out = out.len() as u32;
                if name == "inflate-on-deflate-stream" { c::mz_inflate(&mut zs, 0) as i64 } else { c::mz_inflateEnd(&mut zs) as i64 }
            }
            "deflateInit-with-zalloc" => {
                zs.zalloc = Some(dummy_alloc);
                c::mz_deflateInit(&mut zs, 6) as i64
            }
            "inflateInit-with-zfree" => {
                zs.zfree = Some(dummy_free);
                c::mz_inflateInit(&mut zs) as i64
            }
            "deflate-with-zalloc-set-later" => {
                c::mz_deflateInit(&mut zs, 6);
                zs.zalloc = Some(dummy_alloc);
                zs.next_in = data.as_ptr();
                zs.avail_in = data.len() as u32;
                zs.next_out = out.as_mut_ptr();
                zs.avail_out = out.len() as u32;
                c::mz_deflate(&mut zs, 4) as i64
            }
            "deflate-after-end" => {
                c::mz_deflateInit(&mut zs, 6);
                c::mz_deflateEnd(&mut zs);
                zs.next_in = data.as_ptr();
                zs.avail_in = data.len() as u32;
                zs.next_out = out.as_mut_ptr();
                zs.avail_out = out.len() as u32;
                c::mz_deflate(&mut zs, 4) as i64
            }
            "inflate-after-end" => {
                c::mz_inflateInit(&mut zs);
                c::mz_inflateEnd(&mut zs);
                zs.next_in = data.as_ptr();
                zs.avail_in = data.len() as u32;
                zs.next_out = out.as_mut_ptr();
                zs.avail_out = out.len() as u32;
                c::mz_inflate(&mut zs, 0) as i64
            }
            "deflate-uninitialised" => {
                zs.next_in = data.as_ptr();
                zs.avail_in = data.len() as u32;
                zs.next_out = out.as_mut_ptr();
                zs.avail_out = out.len() as u32;
                c::mz_deflate(&mut zs, 4) as i64
            }
            "inflate-uninitialised" => {
                zs.next_in = data.as_ptr();
                zs.avail_in = data.len() as u32;
                zs.next_out = out.as_mut_ptr();
                zs.avail_out = out.len() as u32;
                c::mz_inflate(&mut zs, 0) as i64
            }
            "reset-then-use" => {
                // legal use, as a control: must succeed
                c::mz_deflateInit(&mut zs, 6);
                c::mz_deflateReset(&mut zs);
                zs.next_in = data.as_ptr();
                zs.avail_in = data.len() as u32;
                zs.next_out = out.as_mut_ptr();
                zs.avail_out = out.len() as u32;
                let r = c::mz_deflate(&mut zs, 4) as i64;
                if r == 1 { -777 } else { r }
            }
            "compress2-null-dest_len" => c::mz_compress2(out.as_mut_ptr(), std::ptr::null_mut(), data.as_ptr(), data.len() as _, 6) as i64,
            "uncompress-null-dest_len" => c::mz_uncompress(out.as_mut_ptr(), std::ptr::null_mut(), data.as_ptr(), data.len() as _) as i64,
            "compress2-null-dest" => {
                let mut l: libc::c_ulong = 256;
                c::mz_compress2(std::ptr::null_mut(), &mut l, data.as_ptr(), data.len() as _, 6) as i64
            }
            "uncompress-null-dest" => {
                let mut l: libc::c_ulong = 256;
                c::mz_uncompress(std::ptr::null_mut(), &mut l, data.as_ptr(), data.len() as _) as i64
            }
            "compress2-null-source" => {
                let mut l: libc::c_ulong = 256;
                c::mz_compress2(out.as_mut_ptr(), &mut l, std::ptr::null(), 10, 6) as i64
            }
            "tdefl_compress-null-compressor" => {
                let (mut a, mut b) = (data.len(), out.len());
                (c::tdefl_compress(None, data.as_ptr() as *const c_void, Some(&mut a), out.as_mut_ptr() as *mut c_void, Some(&mut b), c::tdefl_flush::TDEFL_FINISH) as i32).min(0) as i64
            }
            "tdefl_compress-null-in" | "tdefl_compress-null-out" | "tdefl_compress-uninitialised" => {
                let d = c::tdefl_allocate();
                if name != "tdefl_compress-uninitialised" {
                    c::tdefl_init(d.as_mut(), None, std::ptr::null_mut(), 0x1000 | 128);
                }
                let (mut a, mut b) = (data.len(), out.len());
                let inp = if name == "tdefl_compress-null-in" { std::ptr::null() } else { data.as_ptr() as *const c_void };
                let outp = if name == "tdefl_compress-null-out" { std::ptr::null_mut() } else { out.as_mut_ptr() as *mut c_void };
                let r = (c::tdefl_compress(d.as_mut(), inp, Some(&mut a), outp, Some(&mut b), c::tdefl_flush::TDEFL_FINISH) as i32).min(0) as i64;
                c::tdefl_deallocate(d);
                r
            }
            "tdefl_init-null" => (c::tdefl_init(None, None, std::ptr::null_mut(), 0) as i32).min(0) as i64,
            "tdefl_get_adler32-null" => {
                let _ = c::tdefl_get_adler32(None);
                -1 // no error channel: surviving is the requirement
            }
            "tdefl_mem_to_heap-null-len" => {
                if c::tdefl_compress_mem_to_heap(data.as_ptr() as *const c_void, data.len(), std::ptr::null_mut(), 0).is_null() { -1 } else { 0 }
            }
            "tdefl_mem_to_mem-null-out" => {
                if c::tdefl_compress_mem_to_mem(std::ptr::null_mut(), 100, data.as_ptr() as *const c_void, data.len(), 0) == 0 { -1 } else { 0 }
            }
            "tdefl_mem_to_output-null-func" => {
                if c::tdefl_compress_mem_to_output(data.as_ptr() as *const c_void, data.len(), None, std::ptr::null_mut(), 0) == 0 { -1 } else { 0 }
            }
            "tinfl_decompress-null-decompressor" => {
                let (mut a, mut b) = (data.len(), out.len());
                c::tinfl_decompress(std::ptr::null_mut(), data.as_ptr(), &mut a, out.as_mut_ptr(), out.as_mut_ptr(), &mut b, 0) as i64
            }
            "tinfl_init-null" => {
                tinfl_init(std::ptr::null_mut());
                -1
            }
            "tinfl_get_adler32-null" => {
                let _ = tinfl_get_adler32(std::ptr::null_mut());
                -1
            }
            "tinfl_decompress-null-sizes" => {
                let r = tinfl_decompressor_alloc();
                let x = c::tinfl_decompress(r, data.as_ptr(), std::ptr::null_mut(), out.as_mut_ptr(), out.as_mut_ptr(), std::ptr::null_mut(), 0) as i64;
                tinfl_decompressor_free(r);
                x
            }
            "tinfl_mem_to_heap-null-len" => {
                if c::tinfl_decompress_mem_to_heap(data.as_ptr() as *const c_void, data.len(), std::ptr::null_mut(), 0).is_null() { -1 } else { 0 }
            }
            "tinfl_mem_to_mem-null-out" => {
                if c::tinfl_decompress_mem_to_mem(std::ptr::null_mut(), 100, data.as_ptr() as *const c_void, data.len(), 0) == usize::MAX { -1 } else { 0 }
            }
            "tinfl_mem_to_mem-null-src" => {
                if c::tinfl_decompress_mem_to_mem(out.as_mut_ptr() as *mut c_void, 100, std::ptr::null(), 10, 0) == usize::MAX { -1 } else { 0 }
            }
            "adler32-null" => {
                if c::mz_adler32(5, std::ptr::null(), 10) == 1 { -1 } else { 0 }
            }
            "crc32-null" => {
                if c::mz_crc32(5, std::ptr::null(), 10) == 0 { -1 } else { 0 }
            }
            _ => 9999,
        };
        println!("RET {}", ret);
        std::mem::forget(zs);
        0
    }
}

/// Expected class of the return code for a misuse case.
fn misuse_expect(name: &str) -> &'static str {
    if name == "reset-then-use" {
        "control"
    } else if name.contains("null-stream") || name.contains("null-next") {
        "stream-error"
    } else {
        "negative"
    }
}

fn run_misuse(rep: &Report) -> u64 {
    let exe = std::env::current_exe().unwrap();
    let mut n = 0;
    for name in MISUSE {
        n += 1;
        let out = std::process::Command::new(&exe).args(["C17", "--misuse", name]).env("VERIF_DIR", "/nonexistent-no-evidence").output();
        let rp = json!({"kind": "misuse", "case": name});
        match out {
            Err(e) => {
                println!("MACHINERY cannot spawn the misuse child: {}", e);
                std::process::exit(2);
            }
            Ok(o) => {
                let so = String::from_utf8_lossy(&o.stdout).to_string();
                let ret: Option<i64> = so.lines().find_map(|l| l.strip_prefix("RET ").and_then(|x| x.trim().parse().ok()));
                if !o.status.success() || ret.is_none() {
                    use std::os::unix::process::ExitStatusExt;
                    let fam = name.split('-').next().unwrap_or("");
                    rep.violation(
                        &format!("C17/misuse-crash/{}", if fam.starts_with("tinfl") { "tinfl-null-handle-or-pointer" } else { name }),
                        format!("misuse case '{}' crashed the process instead of returning an error (signal {:?}, exit {:?})", name, o.status.signal(), o.status.code()),
                        rp,
                    );
                    continue;
                }
                let r = ret.unwrap();
                let ok = match misuse_expect(name) {
                    "control" => r == -777,
                    "stream-error" => r == -2,
                    _ => r < 0,
                };
                if !ok {
                    rep.violation(&format!("C17/misuse-accepted/{}", name), format!("misuse case '{}' returned {} (expected {})", name, r, misuse_expect(name)), rp);
                }
            }
        }
    }
    n
}

/// mz_deflateInit2 / mz_inflateInit2 / flush parameter sweeps.
fn param_sweep(rep: &Report) -> u64 {
    let mut n = 0;
    unsafe {
        for level in -3..=12 {
            for method in [0, 7, 8, 9] {
                for wbits in -16..=16 {
                    for mem in 0..=10 {
                        for strat in [-1, 0, 4, 5] {
                            n += 1;
                            let mut zs = capi::new_stream();
                            let rc = c::mz_deflateInit2(&mut zs, level, method, wbits, mem, strat);
                            let valid = method == 8 && (wbits == 15 || wbits == -15) && (1..=9).contains(&mem);
                            if valid != (rc == 0) || (!valid && rc != -10000) {
                                rep.violation("C17/deflateInit2-params", format!("mz_deflateInit2(level {}, method {}, window_bits {}, mem_level {}, strategy {}) returned {}", level, method, wbits, mem, strat, rc), json!({"kind": "init2", "level": level, "method": method, "wbits": wbits, "mem": mem, "strat": strat}));
                            }
                            c::mz_deflateEnd(&mut zs);
                        }
                    }
                }
            }
        }
        for wbits in -17..=17 {
            n += 1;
            let mut zs = capi::new_stream();
            let rc = c::mz_inflateInit2(&mut zs, wbits);
            let valid = wbits == 15 || wbits == -15;
            if valid != (rc == 0) || (!valid && rc != -10000) {
                rep.violation("C17/inflateInit2-params", format!("mz_inflateInit2(window_bits {}) returned {}", wbits, rc), json!({"kind": "iinit2", "wbits": wbits}));
            }
            c::mz_inflateEnd(&mut zs);
        }
        // out-of-range level / strategy are clamped: same bytes as the Rust API given the same integers
        let data = corpus::medium_inputs().remove(0).data;
        for level in -3..=12 {
            for strat in -1..=5 {
                n += 1;
                match deflate_diff(&data, level, 15, strat, &[Act { ai: u32::MAX, ao: LARGE as u32, flush: 4 }], Place::End) {
                    Ok(_) => {}
                    Err(e) => rep.violation("C17/level-strategy-clamp", format!("level {} strategy {}: {}", level, strat, e), json!({"kind": "clamp", "level": level, "strat": strat})),
                }
            }
        }
        // flush values -1..=6 on both kinds
        for flush in -1..=6 {
            n += 2;
            if let Err(e) = deflate_diff(&data, 6, 15, 0, &[Act { ai: 10, ao: 50, flush }, Act { ai: u32::MAX, ao: LARGE as u32, flush: 4 }], Place::End) {
                rep.violation("C17/flush-range/deflate", format!("flush {}: {}", flush, e), json!({"kind": "flush", "flush": flush}));
            }
            let z = miniz_oxide::deflate::compress_to_vec_zlib(&data, 6);
            if let Err(e) = inflate_diff(&z, 15, &[Act { ai: 10, ao: 50, flush }, Act { ai: u32::MAX, ao: LARGE as u32, flush: 0 }], Place::End) {
                rep.violation("C17/flush-range/inflate", format!("flush {}: {}", flush, e), json!({"kind": "flush", "flush": flush}));
            }
            if !(0..=5).contains(&flush) {
                let mut zs = capi::new_stream();
                c::mz_deflateInit(&mut zs, 6);
                let o = capi::stream_call(&mut zs, false, &data, 0, 10, 50, flush, Place::End);
                if !matches!(o, Ok(ref x) if x.ret < 0) {
                    rep.violation("C17/flush-range/accepted", format!("mz_deflate with flush {} did not return an error", flush), json!({"kind": "flush", "flush": flush}));
                }
                c::mz_deflateEnd(&mut zs);
            }
        }
    }
    n
}

pub fn run(tier: &str) -> i32 {
    capi::install_fault_handler("C17");
    let rep = Report::new("C17", tier, "model_checking");
    let th = rep.thorough();
    let all = acts();
    let med = corpus::medium_inputs();
    let inputs: Vec<(String, Vec<u8>)> = vec![
        ("empty".into(), vec![]),
        ("hello".into(), b"Hello zlib! Hello zlib!".to_vec()),
        (med[0].name.clone(), med[0].data[..200].to_vec()),
        (med[4].name.clone(), med[4].data[..150].to_vec()),
        (med[2].name.clone(), med[2].data.clone()),
    ];
    let cfgs: Vec<(i32, i32, i32)> = vec![(6, 15, 0), (1, -15, 0), (0, 15, 0), (9, -15, 4), (6, 15, 3)];
    let depth = if th { 3 } else { 2 };
    // work items: (kind 0 deflate / 1 inflate, input, cfg, placement, first action)
    let mut items: Vec<(u8, usize, usize, u8, usize)> = vec![];
    for kind in 0..2u8 {
        for i in 0..inputs.len() {
            for cfg in 0..cfgs.len() {
                for pl in 0..2u8 {
                    if !th && (i + cfg + pl as usize) % 2 != 0 {
                        continue;
                    }
                    for a in 0..all.len() {
                        items.push((kind, i, cfg, pl, a));
                    }
                }
            }
        }
    }
    let res = par_for(items.len(), || (0u64, 0u64), |ix, acc| {
        watchdog::tick(ix as u64, 0);
        let (kind, i, cfg, pl, a0) = items[ix];
        let (level, wb, strat) = cfgs[cfg];
        let place = if pl == 0 { Place::End } else { Place::Start };
        let input = &inputs[i].1;
        let stream = if kind == 1 {
            let mut cpr = CompressorOxide::new(create_comp_flags_from_zip_params(level, wb, strat));
            crate::props::c01::compress_all(&mut cpr, input).unwrap()
        } else {
            vec![]
        };
        // all schedules of length `depth` starting with action a0; for deflate streams additionally
        // every (a0, Reset, b) and (a0, b, Reset, Finish-all) schedule
        let total = all.len().pow((depth - 1) as u32);
        let extra = if kind == 0 { all.len() * 2 } else { 0 };
        for code in 0..total + extra {
            let mut sched = vec![all[a0]];
            if code >= total {
                let e = code - total;
                let b = all[e % all.len()];
                if e < all.len() {
                    sched.push(Act { ai: 0, ao: 0, flush: RESET });
                    sched.push(b);
                    sched.push(Act { ai: u32::MAX, ao: LARGE as u32, flush: 4 });
                } else {
                    sched.push(b);
                    sched.push(Act { ai: 0, ao: 0, flush: RESET });
                    sched.push(Act { ai: u32::MAX, ao: LARGE as u32, flush: 4 });
                }
            } else {
                let mut x = code;
                for _ in 1..depth {
                    sched.push(all[x % all.len()]);
                    x /= all.len();
                }
            }
            watchdog::pulse();
            let r = guarded(|| if kind == 0 { deflate_diff(input, level, wb, strat, &sched, place) } else { inflate_diff(&stream, wb, &sched, place) });
            acc.1 += 1;
            match r {
                Ok(Ok(n)) => acc.0 += n,
                Ok(Err(e)) => {
                    let rp = json!({"kind": if kind == 0 { "deflate" } else { "inflate" }, "input_hex": hex(input), "level": level, "wbits": wb, "strat": strat, "place": pl,
                                    "schedule": sched.iter().map(|a| json!([if a.ai == u32::MAX { -1 } else { a.ai as i64 }, a.ao, a.flush])).collect::<Vec<_>>()});
                    rep.violation(&format!("C17/{}-differential/{}", if kind == 0 { "deflate" } else { "inflate" }, if e.contains("accounting") { "accounting" } else { "result" }), format!("{} :: {} level {} wbits {} strategy {}", e, inputs[i].0, level, wb, strat), rp)
                }
                Err(p) => rep.violation("C17/panic", format!("panic {}", p), json!({"kind": if kind == 0 { "deflate" } else { "inflate" }, "input_hex": hex(input), "level": level, "wbits": wb, "strat": strat, "place": pl})),
            }
        }
    });
    let calls: u64 = res.iter().map(|r| r.0).sum();
    let scheds: u64 = res.iter().map(|r| r.1).sum();
    // pairwise one-shot functions
    let mut pair_inputs: Vec<corpus::Input> = corpus::medium_inputs();
    pair_inputs.push(corpus::Input { name: "empty".into(), data: vec![] });
    pair_inputs.push(corpus::Input { name: "one".into(), data: vec![7] });
    for spec in [vec![(crate::gen::Seg::R, 70000)], vec![(crate::gen::Seg::T, 100000)], vec![(crate::gen::Seg::Z, 66000), (crate::gen::Seg::R, 300)]] {
        pair_inputs.push(corpus::shape_input(&spec));
    }
    let mut pitems = vec![];
    for i in 0..pair_inputs.len() {
        for level in [0, 1, 6, 9] {
            for zl in [false, true] {
                for pl in 0..2u8 {
                    pitems.push((i, level, zl, pl));
                }
            }
        }
    }
    let pres = par_for(pitems.len(), || 0u64, |ix, acc| {
        watchdog::tick(ix as u64, 1);
        let (i, level, zl, pl) = pitems[ix];
        let place = if pl == 0 { Place::End } else { Place::Start };
        match guarded(|| pairwise(&pair_inputs[i].data, level, zl, place).and_then(|a| callback_family(&pair_inputs[i].data, level, zl, place).map(|b| a + b)).and_then(|a| reinit_family(&pair_inputs[i].data, level, zl, place).map(|b| a + b))) {
            Ok(Ok(n)) => *acc += n,
            Ok(Err(e)) => rep.violation(
                &format!("C17/pairwise/{}", e.split(|c: char| c == ':' || c == '(' || c == ' ').next().unwrap_or("")),
                format!("{} :: {} level {} zlib {}", e, pair_inputs[i].name, level, zl),
                json!({"kind": "pairwise", "input": pair_inputs[i].name, "level": level, "zlib": zl, "place": pl}),
            ),
            Err(p) => rep.violation("C17/panic", format!("panic {}", p), json!({"kind": "pairwise", "input": pair_inputs[i].name, "level": level, "zlib": zl, "place": pl})),
        }
    });
    let pair_calls: u64 = pres.iter().sum();
    let mut sweep = param_sweep(&rep) + flags_sweep(&rep);
    for place in [Place::End, Place::Start] {
        match guarded(|| reinit_inflate_family(place)) {
            Ok(Ok(k)) => sweep += k,
            Ok(Err(e)) => rep.violation("C17/pairwise/reinit-live-inflate-stream", e, json!({"kind": "reinit-inflate"})),
            Err(p) => rep.violation("C17/panic", format!("panic {}", p), json!({"kind": "reinit-inflate"})),
        }
    }
    let mis = run_misuse(&rep);
    rep.set("states", json!(scheds + pitems.len() as u64));
    rep.set("transitions", json!(calls + pair_calls + sweep + mis));
    rep.set("traces_validated_against_impl", json!(scheds));
    rep.set("schedules", json!(scheds));
    rep.set("depth_completed", json!(depth));
    rep.set("guarded_stream_calls", json!(calls));
    rep.set("pairwise_calls", json!(pair_calls));
    rep.set("parameter_sweep_calls", json!(sweep));
    rep.set("misuse_cases", json!(mis));
    rep.set("explanation", json!("mz_stream objects are not Clone: every schedule of (avail_in {0,1,2,rest}, avail_out {0,1,5,large}, flush 0..=4) up to the stated depth is replayed from a fresh stream and, in lock-step, on a Rust CompressorOxide / InflateState built from the same integers; per call: identical code, counts and bytes, next_in/avail_in/total_in (and out) moving together, nothing beyond the reported count touched on the inflate side; all caller buffers are mmap regions flush against PROT_NONE pages (once at the end, once at the start), a fault or abort inside an exported function is turned into a violation naming the case; one-shot functions (tdefl_*, tinfl_*, mz_compress2, mz_uncompress) are compared with their Rust counterparts incl. exact/one-too-small capacities; parameter sweeps over mz_deflateInit2/mz_inflateInit2/flush; 47 misuse cases each run in a child process so that a crash is observed"));
    rep.sample(json!({"kind": "deflate", "input": "hello", "level": 6, "wbits": 15, "schedule": [[1, 5, 2], [0, 0, 4], [-1, 100000, 4]], "meaning": "[avail_in (-1 rest), avail_out, flush]"}));
    rep.sample(json!({"misuse": MISUSE.iter().take(8).collect::<Vec<_>>()}));
    rep.assume("reads outside the declared input range are caught only when they cross into the adjacent PROT_NONE page (buffers are placed flush against it at the end or at the start)");
    if scheds < 5000 || mis == 0 {
        println!("MACHINERY vacuous: schedules={} misuse={}", scheds, mis);
        rep.finish();
        return 2;
    }
    rep.finish()
}

pub fn replay(v: &Value) -> Option<String> {
    capi::install_fault_handler("C17");
    match v["kind"].as_str()? {
        "deflate" | "inflate" => {
            let input = crate::util::unhex(v["input_hex"].as_str()?);
            let (level, wb, strat) = (v["level"].as_i64()? as i32, v["wbits"].as_i64()? as i32, v["strat"].as_i64()? as i32);
            let place = if v["place"].as_u64()? == 0 { Place::End } else { Place::Start };
            let sched: Vec<Act> = v["schedule"].as_array()?.iter().map(|a| { let k = a[0].as_i64().unwrap(); Act { ai: if k < 0 { u32::MAX } else { k as u32 }, ao: a[1].as_u64().unwrap() as u32, flush: a[2].as_i64().unwrap() as i32 } }).collect();
            if v["kind"] == "deflate" {
                deflate_diff(&input, level, wb, strat, &sched, place).err()
            } else {
                let mut cpr = CompressorOxide::new(create_comp_flags_from_zip_params(level, wb, strat));
                let stream = crate::props::c01::compress_all(&mut cpr, &input).ok()?;
                inflate_diff(&stream, wb, &sched, place).err()
            }
        }
        "misuse" => {
            let rep = Report::new("C17", "quick", "model_checking");
            let name = v["case"].as_str()?.to_string();
            let exe = std::env::current_exe().ok()?;
            let o = std::process::Command::new(&exe).args(["C17", "--misuse", &name]).output().ok()?;
            let so = String::from_utf8_lossy(&o.stdout).to_string();
            let ret: Option<i64> = so.lines().find_map(|l| l.strip_prefix("RET ").and_then(|x| x.trim().parse().ok()));
            let _ = rep;
            if !o.status.success() || ret.is_none() {
                return Some(format!("misuse case {} crashed", name));
            }
            let r = ret.unwrap();
            let ok = match misuse_expect(&name) {
                "control" => r == -777,
                "stream-error" => r == -2,
                _ => r < 0,
            };
            if ok { None } else { Some(format!("misuse case {} returned {}", name, r)) }
        }
        _ => Some("replay of this C17 case kind re-runs the whole sweep: use ./check C17 quick".into()),
    }
}
