//! C07 (suspend/resume anywhere gives the same result) and C08 (writes only inside the granted
//! window, truthful status codes, limit functions). One exploration on the real
//! `DecompressorOxide` with all monitors on; each property reports the violations that belong to it.
use crate::drv::*;
use crate::evidence::Report;
use crate::explore::{DevSearch, Dfs, Model, Stats};
use crate::gen::GenStream;
use crate::refmodel::{ref_inflate, Opts};
use crate::util::{hex, par_for, unhex};
use crate::{corpus, guarded, streams, watchdog};
use miniz_oxide::inflate::{decompress_to_vec_with_limit, decompress_to_vec_zlib_with_limit, TINFLStatus};
use serde_json::{json, Value};
use std::collections::BTreeSet;
use std::sync::Mutex;

pub const REST: u32 = u32::MAX;

#[derive(Clone)]
pub struct St {
    pub d: DecDrv,
    pub idle: u8,
    pub bad: bool,
}

#[derive(Default)]
pub struct Cov {
    pub susp: BTreeSet<(&'static str, i8)>,
    pub canary_checks: u64,
    pub full_region_returns: u64,
}

pub struct DecModel<'a> {
    pub prop: &'a str,
    pub s: &'a GenStream,
    pub mode: Mode,
    pub buflen: usize,
    pub flags: u32,
    pub reference: DecResult,
    pub rep: &'a Report,
    pub chunks: Vec<u32>,
    pub budgets: Vec<u32>,
    pub cov: Mutex<Cov>,
    pub double_canary: bool,
    pub what: String,
}

fn a2u(x: u32) -> usize {
    if x == REST {
        usize::MAX
    } else {
        x as usize
    }
}

impl<'a> DecModel<'a> {
    pub fn new(prop: &'a str, s: &'a GenStream, mode: Mode, buflen: usize, rep: &'a Report, chunks: &[u32], budgets: &[u32]) -> Self {
        let flags = if s.zlib { F_ZLIB } else { 0 };
        // the one-call reference run is code under test too: a panic there is a finding, not a harness crash
        let reference = match guarded(|| run_const(&s.bytes, mode, buflen, flags, usize::MAX, usize::MAX, 0xAA)) {
            Ok(r) => r,
            Err(p) => {
                rep.violation(
                    &format!("{}/panic", prop),
                    format!("one-call decode panicked: {} :: {:?} buf={} stream [{}]", p, mode, buflen, s.desc),
                    json!({"stream_hex": if s.bytes.len() <= 4096 { json!(hex(&s.bytes)) } else { Value::Null }, "stream_desc": s.desc, "zlib": s.zlib, "mode": format!("{:?}", mode), "buflen": buflen, "schedule": [[-1, -1]]}),
                );
                DecResult { status: TINFLStatus::Failed, out: vec![], consumed: 0, calls: 0 }
            }
        };
        DecModel {
            prop,
            s,
            mode,
            buflen,
            flags,
            reference,
            rep,
            chunks: chunks.to_vec(),
            budgets: budgets.to_vec(),
            cov: Mutex::new(Cov::default()),
            double_canary: prop == "C08",
            what: format!("{:?} buf={} stream [{}]", mode, buflen, s.desc),
        }
    }
    pub fn init(&self) -> St {
        let mut d = DecDrv::new(self.mode, self.buflen, self.flags, 0xAA);
        d.keep_out = false;
        St { d, idle: 0, bad: false }
    }
    fn replay_json(&self, path: &[(u32, u32)]) -> Value {
        json!({
            "stream_hex": if self.s.bytes.len() <= 4096 { json!(hex(&self.s.bytes)) } else { Value::Null },
            "stream_desc": self.s.desc, "zlib": self.s.zlib,
            "mode": format!("{:?}", self.mode), "buflen": self.buflen,
            "schedule": path.iter().map(|(k, b)| json!([if *k == REST { -1i64 } else { *k as i64 }, if *b == REST { -1i64 } else { *b as i64 }])).collect::<Vec<_>>(),
        })
    }
    fn viol(&self, owner: &str, site: &str, what: String, path: &[(u32, u32)]) {
        if owner == self.prop {
            self.rep.violation(&format!("{}/{}", owner, site), format!("{} :: {} after {} calls", what, self.what, path.len()), self.replay_json(path));
        }
    }
}

impl<'a> Model for DecModel<'a> {
    type S = St;
    type A = (u32, u32);

    fn actions(&self, s: &St, out: &mut Vec<(u32, u32)>) {
        if s.idle >= 2 {
            out.push((REST, REST));
            return;
        }
        let left = self.s.bytes.len() - s.d.avail_end;
        let mut ks: Vec<u32> = vec![];
        for &k in &self.chunks {
            let eff = if k == REST { left } else { (k as usize).min(left) };
            let canon = if eff == left && left > 0 { REST } else { eff as u32 };
            let canon = if left == 0 { 0 } else { canon };
            if !ks.contains(&canon) {
                ks.push(canon);
            }
        }
        for k in ks {
            for &b in &self.budgets {
                out.push((k, b));
            }
        }
    }

    fn step(&self, st: &mut St, a: (u32, u32), path: &[(u32, u32)]) -> bool {
        let data = &self.s.bytes;
        let before = st.d.buf.clone();
        let out_pos0 = if st.d.mode == Mode::Ring && st.d.out_pos == st.d.buf.len() { 0 } else { st.d.out_pos };
        let delivered0 = st.d.delivered;
        let mut twin = if self.double_canary && self.mode == Mode::Flat {
            let mut t = st.d.clone();
            for x in t.buf[out_pos0..].iter_mut() {
                *x = 0x5C;
            }
            Some(t)
        } else {
            None
        };
        watchdog::pulse();
        let r = guarded(|| st.d.step(data, a2u(a.0), a2u(a.1)));
        let o = match r {
            Ok(o) => o,
            Err(p) => {
                self.viol(self.prop, "panic", format!("decode call panicked: {}", p), path);
                st.bad = true;
                return false;
            }
        };
        if o.consumed > o.offered || o.written > o.granted {
            self.viol("C08", "counts", format!("consumed {} of {} offered, wrote {} of {} granted", o.consumed, o.offered, o.written, o.granted), path);
            st.bad = true;
            return false;
        }
        // C08: nothing outside [out_pos, out_pos+written) changed
        let lo = out_pos0;
        let hi = out_pos0 + o.written;
        if before[..lo] != st.d.buf[..lo] || before[hi..] != st.d.buf[hi..] {
            let p = (0..before.len()).find(|&i| (i < lo || i >= hi) && before[i] != st.d.buf[i]).unwrap();
            self.viol(
                "C08",
                &format!("write-outside-region/{}", dec_state_name(&st.d.r)),
                format!("byte {} changed outside the granted region [{}, {}) (status {})", p, lo, hi, status_name(o.status)),
                path,
            );
            st.bad = true;
            return false;
        }
        if let Some(t) = twin.as_mut() {
            let o2 = guarded(|| t.step(data, a2u(a.0), a2u(a.1)));
            let same = match o2 {
                Ok(o2) => {
                    o2.status == o.status
                        && o2.consumed == o.consumed
                        && o2.written == o.written
                        && t.buf[lo..hi] == st.d.buf[lo..hi]
                        && t.buf[hi..].iter().all(|&x| x == 0x5C)
                }
                Err(_) => false,
            };
            self.cov.lock().unwrap().canary_checks += 1;
            if !same {
                self.viol("C08", "canary-twin", "second run with a different canary pattern differs (a byte outside the region was written or read)".into(), path);
                st.bad = true;
                return false;
            }
        }
        // C08: status truthfulness
        if o.status == TINFLStatus::HasMoreOutput {
            self.cov.lock().unwrap().full_region_returns += 1;
            if o.written != o.granted {
                self.viol("C08", "has-more-output-not-full", format!("HasMoreOutput with {} of {} granted bytes written", o.written, o.granted), path);
                st.bad = true;
                return false;
            }
        }
        if o.status == TINFLStatus::NeedsMoreInput && o.consumed != o.offered {
            self.viol("C08", "needs-more-input-not-consumed", format!("NeedsMoreInput with {} of {} offered bytes consumed", o.consumed, o.offered), path);
            st.bad = true;
            return false;
        }
        // C07: output so far is a prefix of the one-call output in the same mode
        let refo = &self.reference.out;
        let end = delivered0 + o.written;
        if end > refo.len() || st.d.buf[lo..hi] != refo[delivered0..end] {
            self.viol(
                "C07",
                &format!("output-not-prefix/{}", dec_state_name(&st.d.r)),
                format!("bytes {}..{} differ from the one-call output (one-call: {} bytes, {})", delivered0, end, refo.len(), status_name(self.reference.status)),
                path,
            );
            st.bad = true;
            return false;
        }
        if HOOKS {
            self.cov.lock().unwrap().susp.insert((dec_state_name(&st.d.r), o.status as i8));
        }
        let progressed = o.consumed > 0 || o.written > 0 || (a.0 != 0 && o.offered > 0 && st.idle == 0);
        st.idle = if o.consumed > 0 || o.written > 0 { 0 } else { st.idle + 1 };
        let _ = progressed;
        true
    }

    fn fingerprint(&self, s: &St) -> Option<u128> {
        if HOOKS {
            Some(s.d.fingerprint(s.idle as u64))
        } else {
            None
        }
    }

    fn terminal(&self, s: &St) -> bool {
        if s.bad || s.d.terminal() {
            return true;
        }
        // flat buffer exhausted with everything offered: nothing can change any more
        s.d.last == Some(TINFLStatus::HasMoreOutput) && s.d.mode == Mode::Flat && s.d.out_pos == s.d.buf.len() && s.d.avail_end == self.s.bytes.len() && s.idle >= 1
    }

    fn at_end(&self, s: &St, path: &[(u32, u32)]) {
        if s.bad {
            return;
        }
        let Some(last) = s.d.last else { return };
        let r = &self.reference;
        if !s.d.terminal() && !(last == TINFLStatus::HasMoreOutput) {
            // capped run: not a verdict
            return;
        }
        if last != r.status || s.d.delivered != r.out.len() || s.d.in_pos != r.consumed {
            self.viol(
                "C07",
                &format!("transcript-differs/{}->{}", status_name(r.status), status_name(last)),
                format!(
                    "chunked run ended {} with {} bytes out, {} consumed; one call ends {} with {} bytes out, {} consumed",
                    status_name(last), s.d.delivered, s.d.in_pos, status_name(r.status), r.out.len(), r.consumed
                ),
                path,
            );
        }
    }

    fn complete(&self, s: &mut St, path: &mut Vec<(u32, u32)>) {
        let mut n = 0;
        while !self.terminal(s) && n < 1_000_000 {
            path.push((REST, REST));
            if !self.step(s, (REST, REST), path) {
                break;
            }
            n += 1;
        }
    }
}

/// Streams for the schedule explorations: compact valid corpus, single-fault mutants the
/// reference rejects, and streams with output larger than the ring.
pub fn schedule_streams(thorough: bool) -> Vec<GenStream> {
    let mut v: Vec<GenStream> = corpus::compact_corpus(true).into_iter().step_by(if thorough { 1 } else { 5 }).collect();
    v.extend(corpus::produced_corpus().into_iter().filter(|s| s.bytes.len() < 600).step_by(if thorough { 1 } else { 6 }));
    v.extend(streams::clen_encoding_variants(None).into_iter().step_by(if thorough { 3 } else { 12 }));
    // match-copy geometry streams for C08: 8 literals then match(len, dist)
    for len in (3..=20u16).step_by(if thorough { 1 } else { 3 }) {
        for dist in [1u16, 2, 3, 4, 5, 8] {
            let mut b = crate::gen::StreamBuilder::new(None);
            let mut t: Vec<crate::refmodel::Token> = b"abcdefgh".iter().map(|&c| crate::refmodel::Token::Lit(c)).collect();
            t.push(crate::refmodel::Token::Match { len, dist });
            t.push(crate::refmodel::Token::Lit(b'z'));
            b.fixed(&t, true);
            v.push(b.finish());
        }
    }
    // short-code Huffman block followed by tiny stored blocks (bytes of the stored block are read
    // ahead into the bit buffer: RawReadFirstByte / RawStoreFirstByte with every output budget)
    v.extend(streams::short_code_then_stored(None).into_iter().step_by(if thorough { 2 } else { 9 }));
    // fast-path geometry: p literals, then (literal, 258-byte match) pairs, then >= 14 more input
    // bytes, so the fast loop meets "exactly 258/259/260 bytes of room left" before a maximal match
    for p in 0..=3usize {
        use crate::refmodel::Token;
        let mut t: Vec<Token> = (0..p).map(|i| Token::Lit(b'p' + i as u8)).collect();
        for i in 0..4u8 {
            t.push(Token::Lit(b'A' + i));
            t.push(Token::Match { len: 258, dist: 1 });
        }
        for i in 0..40u8 {
            t.push(Token::Lit(0x90 + i));
        }
        for z in [None, Some((7u8, 2u8))] {
            let mut b = crate::gen::StreamBuilder::new(z);
            b.fixed(&t, true);
            v.push(b.finish());
        }
    }
    // single-fault mutants (bit flips) of a few streams, kept when the reference rejects them
    let base: Vec<GenStream> = v.iter().filter(|s| s.bytes.len() >= 8 && s.bytes.len() <= 60).step_by(if thorough { 9 } else { 25 }).cloned().collect();
    for s in base {
        for bit in (0..s.bytes.len() * 8).step_by(if thorough { 3 } else { 7 }) {
            let mut m = s.bytes.clone();
            m[bit / 8] ^= 1 << (bit % 8);
            let t = ref_inflate(&m, &Opts::fmt(s.zlib));
            if !t.is_complete() {
                v.push(GenStream { bytes: m, plain: vec![], desc: format!("bitflip{}[{}]", bit, s.desc), ..s.clone() });
            }
        }
    }
    // inputs in which unrelated bytes follow the stream (containers, concatenated streams): the
    // split may then fall inside the zlib trailer *and* the next call still has plenty of input
    let tailed: Vec<GenStream> = v.iter().filter(|s| s.bytes.len() <= 80 && s.plain.len() > 0).step_by(if thorough { 2 } else { 6 }).cloned().collect();
    for s in tailed {
        for tail in [s.bytes[..8.min(s.bytes.len())].to_vec(), vec![0u8; 5]] {
            let mut b = s.bytes.clone();
            b.extend_from_slice(&tail);
            v.push(GenStream { bytes: b, desc: format!("trailing{}[{}]", tail.len(), s.desc), ..s.clone() });
        }
    }
    v
}

pub fn big_streams() -> Vec<GenStream> {
    let mut v = vec![];
    v.extend(streams::stored_edges(None).into_iter().rev().take(1));
    v.extend(streams::stored_edges(Some((7, 1))).into_iter().rev().take(1));
    let codings = [streams::Coding::Fixed];
    v.extend(streams::length_distance_sweeps(None, false, &codings, 5).into_iter().step_by(17));
    // the same sweeps with 15-bit distance codes (longest bit runs per match), far distance classes
    let deep = [streams::Coding::Dyn(crate::gen::CodeShape::Flat, crate::gen::CodeShape::ChainDeep(15))];
    v.extend(streams::length_distance_sweeps(None, false, &deep, 5).into_iter().rev().step_by(9).take(6));
    v.extend(streams::bushy_deep_streams(None).into_iter().step_by(5));
    v
}

struct Acc {
    kind_secs: [f64; 4],
    kind_trans: [u64; 4],
    stats: Stats,
    susp: BTreeSet<(&'static str, i8)>,
    canary: u64,
    full: u64,
    runs: u64,
}

fn absorb(acc: &mut Acc, m: &DecModel, st: &Stats) {
    acc.stats.merge(st);
    let c = m.cov.lock().unwrap();
    acc.susp.extend(c.susp.iter().cloned());
    acc.canary += c.canary_checks;
    acc.full += c.full_region_returns;
    acc.runs += 1;
}

pub fn run(tier: &str, prop: &str) -> i32 {
    let rep = Report::new(prop, tier, "model_checking");
    let th = rep.thorough();
    let ss = schedule_streams(th);
    let big = big_streams();
    let chunks_full: Vec<u32> = vec![0, 1, 2, 3, 4, 5, 13, 14, 15, REST];
    let budgets_full: Vec<u32> = vec![0, 1, 2, 3, 257, 258, 259, 260, REST];
    let chunks_small: Vec<u32> = vec![0, 1, 2, 3, REST];
    let budgets_small: Vec<u32> = vec![0, 1, 2, 3, REST];
    let short_limit = if th { 32 } else { 13 };
    let part_limit = if th { 20 } else { 14 };
    // work items: (stream index, kind)
    #[derive(Clone, Copy)]
    enum Kind {
        FullDedup(Mode, usize),
        Dev(Mode, usize),
        Partitions,
        ConstBudgets,
    }
    let mut items: Vec<(usize, bool, Kind)> = vec![];
    for (i, s) in ss.iter().enumerate() {
        let n_out = {
            let t = ref_inflate(&s.bytes, &Opts::fmt(s.zlib));
            // invalid streams: the crate may produce more than the reference before failing
            let c = guarded(|| run_const(&s.bytes, Mode::Ring, 32768, if s.zlib { F_ZLIB } else { 0 }, usize::MAX, usize::MAX, 0)).map(|c| c.out.len()).unwrap_or(0);
            t.out.len().max(c)
        };
        if s.bytes.len() <= short_limit && n_out <= (if th { 300 } else { 48 }) {
            items.push((i, false, Kind::FullDedup(Mode::Flat, n_out + 4)));
            for rl in [8usize, 64] {
                items.push((i, false, Kind::FullDedup(Mode::Ring, rl)));
            }
        }
        items.push((i, false, Kind::Dev(Mode::Flat, n_out + 300)));
        items.push((i, false, Kind::Dev(Mode::Ring, 32768)));
        if th {
            items.push((i, false, Kind::Dev(Mode::Ring, 16)));
        }
        if s.bytes.len() <= part_limit {
            items.push((i, false, Kind::Partitions));
        }
        if n_out <= 600 {
            items.push((i, false, Kind::ConstBudgets));
        }
    }
    for (i, _) in big.iter().enumerate() {
        items.push((i, true, Kind::Dev(Mode::Ring, 32768)));
        items.push((i, true, Kind::Dev(Mode::Flat, 0)));
    }
    let dev_bound = if th { 2 } else { 1 };
    let accs = par_for(
        items.len(),
        || Acc { kind_secs: [0.0; 4], kind_trans: [0; 4], stats: Stats::default(), susp: BTreeSet::new(), canary: 0, full: 0, runs: 0 },
        |ix, acc| {
            let (i, is_big, kind) = items[ix];
            watchdog::tick(ix as u64, 0);
            let s = if is_big { &big[i] } else { &ss[i] };
            let t0 = std::time::Instant::now();
            let tr0 = acc.stats.transitions;
            let kidx = match kind {
                Kind::FullDedup(..) => 0,
                Kind::Dev(..) => 1,
                Kind::Partitions => 2,
                Kind::ConstBudgets => 3,
            };
            match kind {
                Kind::FullDedup(mode, bl) => {
                    let m = DecModel::new(prop, s, mode, bl, &rep, &chunks_small, &budgets_small);
                    let mut d = Dfs::new(&m, HOOKS, if HOOKS { 100_000 } else { 4 }, 3_000_000);
                    d.run(m.init());
                    absorb(acc, &m, &d.stats);
                }
                Kind::Dev(mode, bl) => {
                    let bl = if bl == 0 { ref_inflate(&s.bytes, &Opts::fmt(s.zlib)).out.len() + 64 } else { bl };
                    let (chunks, budgets) = if is_big { (vec![0u32, 1, 13, REST], vec![0u32, 1, 3, 258, 259, REST]) } else { (chunks_full.clone(), budgets_full.clone()) };
                    let m = DecModel::new(prop, s, mode, bl, &rep, &chunks, &budgets);
                    let mut alts = vec![];
                    for &k in &chunks {
                        for &b in &budgets {
                            alts.push((k, b));
                        }
                    }
                    let policies: Vec<(u32, u32)> = if is_big {
                        vec![(REST, REST), (4096, 1000)]
                    } else if th {
                        vec![(REST, REST), (1, REST), (REST, 1), (1, 1), (4, 3), (14, 258)]
                    } else {
                        vec![(REST, REST), (1, 1), (4, 3)]
                    };
                    for p in policies {
                        let mut ds = DevSearch::new(&m, p, alts.clone(), 2_000_000, 2_000_000);
                        ds.run(m.init(), if is_big { 1 } else { dev_bound });
                        absorb(acc, &m, &ds.stats);
                    }
                }
                Kind::Partitions => {
                    // every composition of the input with unlimited room (flat), exhaustive
                    let n = s.bytes.len();
                    let n_out = ref_inflate(&s.bytes, &Opts::fmt(s.zlib)).out.len();
                    let m = DecModel::new(prop, s, Mode::Flat, n_out + 4, &rep, &chunks_small, &budgets_small);
                    let mut st = Stats::default();
                    for mask in 0u64..(1u64 << (n.saturating_sub(1))) {
                        let mut s0 = m.init();
                        let mut path = vec![];
                        let mut last = 0;
                        for cut in 1..=n {
                            if cut == n || (mask >> (cut - 1)) & 1 == 1 {
                                let k = (cut - last) as u32;
                                last = cut;
                                path.push((k, REST));
                                st.transitions += 1;
                                if !m.step(&mut s0, (k, REST), &path) {
                                    break;
                                }
                                // drain output-full returns before offering more
                                let mut g = 0;
                                while !m.terminal(&s0) && s0.d.last == Some(TINFLStatus::HasMoreOutput) && g < 4 {
                                    path.push((0, REST));
                                    st.transitions += 1;
                                    if !m.step(&mut s0, (0, REST), &path) {
                                        break;
                                    }
                                    g += 1;
                                }
                                if m.terminal(&s0) {
                                    break;
                                }
                            }
                        }
                        m.complete(&mut s0, &mut path);
                        m.at_end(&s0, &path);
                        st.executions += 1;
                    }
                    st.states = st.transitions;
                    absorb(acc, &m, &st);
                }
                Kind::ConstBudgets => {
                    let n_out = ref_inflate(&s.bytes, &Opts::fmt(s.zlib)).out.len();
                    let mut st = Stats::default();
                    for (mode, bl) in [(Mode::Flat, n_out + 4), (Mode::Flat, n_out), (Mode::Ring, 32768), (Mode::Ring, 64)] {
                        let m = DecModel::new(prop, s, mode, bl, &rep, &chunks_small, &budgets_small);
                        for b in 1..=(n_out as u32 + 1).min(if th { 300 } else { 40 }) {
                            for k in [REST, 1u32] {
                                let mut s0 = m.init();
                                let mut path = vec![];
                                let mut calls = 0;
                                while !m.terminal(&s0) && calls < 100_000 {
                                    path.push((k, b));
                                    st.transitions += 1;
                                    if !m.step(&mut s0, (k, b), &path) {
                                        break;
                                    }
                                    calls += 1;
                                }
                                m.at_end(&s0, &path);
                                st.executions += 1;
                            }
                        }
                        st.states = st.transitions;
                        absorb(acc, &m, &Stats::default());
                    }
                    acc.stats.merge(&st);
                }
            }
            if std::env::var("MC_DEBUG").is_ok() && t0.elapsed().as_secs_f64() > 2.0 {
                eprintln!("slow item kind={} {:.1}s trans={} len={} [{}]", kidx, t0.elapsed().as_secs_f64(), acc.stats.transitions - tr0, s.bytes.len(), s.desc);
            }
            acc.kind_secs[kidx] += t0.elapsed().as_secs_f64();
            acc.kind_trans[kidx] += acc.stats.transitions - tr0;
        },
    );
    let mut total = Stats::default();
    let mut susp = BTreeSet::new();
    let (mut canary, mut full, mut runs) = (0u64, 0u64, 0u64);
    let mut ks = [0.0f64; 4];
    let mut kt = [0u64; 4];
    for a in &accs {
        for k in 0..4 {
            ks[k] += a.kind_secs[k];
            kt[k] += a.kind_trans[k];
        }
        total.merge(&a.stats);
        susp.extend(a.susp.iter().cloned());
        canary += a.canary;
        full += a.full;
        runs += a.runs;
    }
    // C07: the streaming wrapper (32 KiB window, dict_ofs/dict_avail hand-off): every constant
    // (chunk, room) schedule of the None-loop gives the transcript of the (rest, large) loop
    let mut wrapper_runs = 0u64;
    if prop == "C07" {
        let all: Vec<&GenStream> = ss.iter().chain(big.iter()).collect();
        let wr = par_for(all.len(), || 0u64, |i, acc| {
            watchdog::tick(900_000 + i as u64, 0);
            let s = all[i];
            let fmts: Vec<miniz_oxide::DataFormat> = if s.zlib { vec![miniz_oxide::DataFormat::Zlib, miniz_oxide::DataFormat::ZLibIgnoreChecksum] } else { vec![miniz_oxide::DataFormat::Raw] };
            for fmt in fmts {
                let reference = inflate_loop_const(&s.bytes, fmt, usize::MAX, 1 << 20, miniz_oxide::MZFlush::None);
                let bigs = s.bytes.len() > 3000;
                for chunk in [1usize, 2, 3, 13, 4096, usize::MAX] {
                    for room in [1usize, 2, 3, 7, 259, 1000, 1 << 20] {
                        if bigs && (chunk < 13 || room < 7) && !(chunk == 1 && room == 1 << 20) && !(chunk == usize::MAX && room == 1) {
                            continue;
                        }
                        watchdog::pulse();
                        *acc += 1;
                        let r = match guarded(|| inflate_loop_const(&s.bytes, fmt, chunk, room, miniz_oxide::MZFlush::None)) {
                            Ok(r) => r,
                            Err(p) => {
                                rep.violation("C07/wrapper/panic", format!("inflate() panicked: {}", p), json!({"wrapper": true, "stream_hex": hex(&s.bytes), "zlib": s.zlib, "chunk": chunk.min(1 << 40), "room": room}));
                                continue;
                            }
                        };
                        // starvation markers (-7778: nothing left to offer) compare as "needs more input"
                        let class = |c: i32| if c == -5 || c == -7778 { -5 } else { c };
                        if class(r.code) != class(reference.code) || r.out != reference.out || r.consumed != reference.consumed {
                            // one specific, separately keyed pattern: same error verdict and consumed
                            // count, delivered bytes a proper prefix of the reference output (bytes
                            // decoded into the window but not yet handed out when the error surfaced)
                            let dropped = r.code < 0 && class(r.code) == class(reference.code) && r.consumed == reference.consumed && r.out.len() < reference.out.len() && reference.out.starts_with(&r.out);
                            rep.violation(
                                &if dropped { "C07/wrapper/error-drops-pending-output".to_string() } else { format!("C07/wrapper-transcript-differs/{}->{}", reference.code, r.code) },
                                format!("inflate() loop with chunk {} room {} ends code {} with {} bytes out, {} consumed; the (rest, large) loop ends code {} with {} bytes out, {} consumed [{}] {}",
                                    chunk as isize, room, r.code, r.out.len(), r.consumed, reference.code, reference.out.len(), reference.consumed, s.desc, fmt_name(fmt)),
                                json!({"wrapper": true, "stream_hex": if s.bytes.len() < 4000 { json!(hex(&s.bytes)) } else { Value::Null }, "stream_desc": s.desc, "zlib": s.zlib, "fmt": fmt_name(fmt), "chunk": chunk.min(1 << 40), "room": room}),
                            );
                        }
                    }
                }
            }
        });
        wrapper_runs = wr.iter().sum();
    }
    // C08: limit functions
    let mut limit_evals = 0u64;
    if prop == "C08" {
        for s in ss.iter().filter(|s| !s.desc.starts_with("bitflip")) {
            let n = s.plain.len();
            for limit in [0usize, 1, n.saturating_sub(1), n, n + 1, 2 * n, usize::MAX] {
                limit_evals += 1;
                let r = guarded(|| if s.zlib { decompress_to_vec_zlib_with_limit(&s.bytes, limit) } else { decompress_to_vec_with_limit(&s.bytes, limit) });
                let rp = json!({"stream_hex": hex(&s.bytes), "plain_hex": hex(&s.plain), "zlib": s.zlib, "limit": limit.min(u64::MAX as usize) as u64, "limit_is_max": limit == usize::MAX, "desc": s.desc});
                match r {
                    Err(p) => rep.violation("C08/limit/panic", format!("limit {}: panic {}", limit, p), rp),
                    Ok(Ok(v)) => {
                        if v.len() > limit || v != s.plain {
                            rep.violation("C08/limit/ok-wrong", format!("limit {}: Ok with {} bytes (plaintext {}) [{}]", limit, v.len(), n, s.desc), rp);
                        }
                    }
                    Ok(Err(e)) => {
                        if n <= limit {
                            rep.violation("C08/limit/spurious-error", format!("limit {} >= size {}: Err({}) [{}]", limit, n, status_name(e.status), s.desc), rp);
                        } else if e.status != TINFLStatus::HasMoreOutput || e.output.len() > limit || e.output[..] != s.plain[..e.output.len().min(n)] {
                            rep.violation(
                                "C08/limit/error-shape",
                                format!("limit {} < size {}: Err({}) with {} bytes [{}]", limit, n, status_name(e.status), e.output.len(), s.desc),
                                rp,
                            );
                        }
                    }
                }
            }
        }
    }
    rep.set("cpu_seconds_by_kind", json!({"full_dedup": ks[0], "deviation": ks[1], "partitions": ks[2], "const_budgets": ks[3]}));
    // ---- the multi-slice entry point: every two-way split (and 1..5-byte pieces) delivered by
    // iterators of each *kind* - exact size hint (slice iterator), no size hint (from_fn), lower
    // bound 0 (filter) - must give what the one-slice call gives (verdict, count, bytes)
    let mut slice_iter_runs = 0u64;
    if prop == "C07" {
        let idx: Vec<usize> = (0..ss.len()).filter(|&i| ss[i].bytes.len() <= 300).collect();
        let res = par_for(idx.len(), || 0u64, |j, acc| {
            let s = &ss[idx[j]];
            watchdog::tick(9_000_000 + j as u64, 0);
            let data = &s.bytes;
            let cap = ref_inflate(data, &Opts::fmt(s.zlib)).out.len().max(s.plain.len()) + 64;
            let one = guarded(|| {
                let mut out = vec![0u8; cap];
                let r = miniz_oxide::inflate::decompress_slice_iter_to_slice(&mut out, std::iter::once(&data[..]), s.zlib, false);
                (r, out)
            });
            let Ok((r0, out0)) = one else {
                rep.violation("C07/slice-iter/panic", format!("one-slice call panicked [{}]", s.desc), json!({"slice_iter": true, "stream_hex": hex(data), "zlib": s.zlib, "cut": 0, "kind": "once"}));
                return;
            };
            let n0 = r0.unwrap_or(0);
            let mut check = |kind: &str, cut: usize, got: Result<(Result<usize, TINFLStatus>, Vec<u8>), String>| {
                *acc += 1;
                match got {
                    Err(p) => rep.violation("C07/slice-iter/panic", format!("{} iterator, split {}: panic {} [{}]", kind, cut, p, s.desc), json!({"slice_iter": true, "stream_hex": hex(data), "zlib": s.zlib, "cut": cut, "kind": kind})),
                    Ok((r, out)) => {
                        if r != r0 || (r.is_ok() && out[..n0] != out0[..n0]) {
                            rep.violation(&format!("C07/slice-iter/{}", kind), format!("{} iterator, split {}: {:?}, one slice gives {:?} [{}]", kind, cut, r.map_err(status_name), r0.map_err(status_name), s.desc), json!({"slice_iter": true, "stream_hex": hex(data), "zlib": s.zlib, "cut": cut, "kind": kind}));
                        }
                    }
                }
            };
            for cut in 0..=data.len() {
                for kind in ["exact-hint", "from_fn", "filter"] {
                    check(kind, cut, guarded(|| slice_iter_split(data, s.zlib, cap, cut, kind)));
                }
            }
        });
        slice_iter_runs = res.iter().sum();
    }
    rep.set("slice_iter_runs", json!(slice_iter_runs));
    rep.set("transitions_by_kind", json!({"full_dedup": kt[0], "deviation": kt[1], "partitions": kt[2], "const_budgets": kt[3]}));
    rep.set("states", json!(total.states));
    rep.set("transitions", json!(total.transitions));
    rep.set("executions", json!(total.executions));
    rep.set("traces_validated_against_impl", json!(total.executions));
    rep.set("dedup_hits", json!(total.dedup_hits));
    rep.set("max_depth", json!(total.max_depth));
    rep.set("capped", json!(total.capped));
    rep.set("explorations", json!(runs));
    rep.set("streams", json!(ss.len() + big.len()));
    rep.set("deviation_bound_completed", json!(dev_bound));
    rep.set("suspension_pairs", json!(susp.len()));
    rep.set("suspension_pairs_list", json!(susp.iter().map(|(s, e)| format!("{}:{}", s, e)).collect::<Vec<_>>()));
    rep.set("canary_twin_checks", json!(canary));
    rep.set("region_full_returns", json!(full));
    rep.set("limit_function_evaluations", json!(limit_evals));
    rep.set("inflate_wrapper_schedule_runs", json!(wrapper_runs));
    rep.set("explanation", json!("every trace is an implementation trace: the explorer forks the real DecompressorOxide (Clone) and calls decompress_with_limit; states = distinct 128-bit fingerprints of (complete decoder state, cursors, ring contents) when hooks are on; full unbounded-depth exploration with dedup over chunk {0,1,2,3,rest} x budget {0,1,2,3,unlimited} for short streams in flat and ring(8,64) modes; deviation-bounded search around 6 constant policies with the 10x9 chunk/budget alphabet; every input composition for streams <= 16/22 bytes; every constant budget"));
    rep.sample(json!({"stream": ss[ss.len() / 3].desc, "mode": "Flat", "schedule": [[1, -1], [0, 2], [-1, 3], [-1, -1]], "meaning": "[input bytes revealed, output budget] per call; -1 = rest/unlimited"}));
    rep.sample(json!({"stream": ss[ss.len() / 2].desc, "mode": "Ring(64)", "policy": [4, 3], "deviation_at_call": 5, "alternative": [13, 258]}));
    rep.assume("the one-call transcript in the same buffer mode is the reference (C07's own statement); for valid streams it is additionally tied to the plaintext by C03");
    if total.transitions < 10_000 || (HOOKS && susp.len() < 25) {
        println!("MACHINERY vacuous: transitions={} suspension pairs={}", total.transitions, susp.len());
        rep.finish();
        return 2;
    }
    if HOOKS && susp.len() < 40 {
        rep.warn(format!("only {} (state, exit) suspension pairs reached (target 40)", susp.len()));
    }
    rep.finish()
}

/// decompress_slice_iter_to_slice on `data` split at `cut` (cut > len: 1..5-byte pieces), the two
/// pieces delivered by an iterator of the given kind.
fn slice_iter_split(data: &[u8], zlib: bool, cap: usize, cut: usize, kind: &str) -> (Result<usize, TINFLStatus>, Vec<u8>) {
    let mut out = vec![0u8; cap];
    let parts: Vec<&[u8]> = vec![&data[..cut], &data[cut..]];
    let r = match kind {
        "exact-hint" => miniz_oxide::inflate::decompress_slice_iter_to_slice(&mut out, parts.iter().cloned(), zlib, false),
        "from_fn" => {
            let mut i = 0;
            miniz_oxide::inflate::decompress_slice_iter_to_slice(
                &mut out,
                std::iter::from_fn(|| {
                    i += 1;
                    parts.get(i - 1).cloned()
                }),
                zlib,
                false,
            )
        }
        _ => miniz_oxide::inflate::decompress_slice_iter_to_slice(&mut out, data.chunks(cut.clamp(1, 5)).filter(|_| true), zlib, false),
    };
    (r, out)
}

pub fn replay(v: &Value, prop: &str) -> Option<String> {
    if v.get("slice_iter").is_some() {
        let data = unhex(v["stream_hex"].as_str()?);
        let zl = v["zlib"].as_bool()?;
        let cut = v["cut"].as_u64()? as usize;
        let kind = v["kind"].as_str()?.to_string();
        let cap = ref_inflate(&data, &Opts::fmt(zl)).out.len() + 64;
        let one = guarded(|| slice_iter_split(&data, zl, cap, data.len(), "exact-hint"));
        let got = guarded(|| slice_iter_split(&data, zl, cap, cut.min(data.len()), &kind));
        return match (one, got) {
            (Ok((r0, o0)), Ok((r, o))) => {
                let n0 = r0.unwrap_or(0);
                if r != r0 || (r.is_ok() && o[..n0] != o0[..n0]) { Some(format!("{:?} vs one slice {:?}", r.map_err(status_name), r0.map_err(status_name))) } else { None }
            }
            _ => Some("panic".into()),
        };
    }
    if v.get("limit").is_some() {
        let s = unhex(v["stream_hex"].as_str()?);
        let plain = unhex(v["plain_hex"].as_str()?);
        let zl = v["zlib"].as_bool()?;
        let limit = if v["limit_is_max"].as_bool()? { usize::MAX } else { v["limit"].as_u64()? as usize };
        let r = guarded(|| if zl { decompress_to_vec_zlib_with_limit(&s, limit) } else { decompress_to_vec_with_limit(&s, limit) });
        return match r {
            Err(p) => Some(format!("panic {}", p)),
            Ok(Ok(o)) => if o.len() > limit || o != plain { Some("Ok with wrong bytes".into()) } else { None },
            Ok(Err(e)) => {
                if plain.len() <= limit || e.status != TINFLStatus::HasMoreOutput || e.output.len() > limit || e.output[..] != plain[..e.output.len().min(plain.len())] {
                    Some(format!("Err({}) with {} bytes", status_name(e.status), e.output.len()))
                } else {
                    None
                }
            }
        };
    }
    if v.get("wrapper").is_some() {
        let bytes = match v["stream_hex"].as_str() {
            Some(h) => unhex(h),
            None => big_streams().into_iter().chain(schedule_streams(true)).find(|s| Some(s.desc.as_str()) == v["stream_desc"].as_str())?.bytes,
        };
        let fmt = match v["fmt"].as_str().unwrap_or("Raw") {
            "Zlib" => miniz_oxide::DataFormat::Zlib,
            "ZLibIgnoreChecksum" => miniz_oxide::DataFormat::ZLibIgnoreChecksum,
            _ => miniz_oxide::DataFormat::Raw,
        };
        let f = |x: u64| if x >= 1 << 40 { usize::MAX } else { x as usize };
        let reference = inflate_loop_const(&bytes, fmt, usize::MAX, 1 << 20, miniz_oxide::MZFlush::None);
        let r = inflate_loop_const(&bytes, fmt, f(v["chunk"].as_u64()?), v["room"].as_u64()? as usize, miniz_oxide::MZFlush::None);
        let class = |c: i32| if c == -5 || c == -7778 { -5 } else { c };
        return if class(r.code) != class(reference.code) || r.out != reference.out || r.consumed != reference.consumed { Some(format!("wrapper transcript differs: code {} vs {}", r.code, reference.code)) } else { None };
    }
    let zlib = v["zlib"].as_bool()?;
    let desc = v["stream_desc"].as_str()?.to_string();
    let bytes = match v["stream_hex"].as_str() {
        Some(h) => unhex(h),
        None => big_streams().into_iter().chain(schedule_streams(true)).find(|s| s.desc == desc && s.zlib == zlib)?.bytes,
    };
    let s = GenStream { bytes, plain: vec![], deflate_bits: 0, zlib, desc, nblocks: 0, block_starts: vec![], block_out_starts: vec![] };
    let mode = if v["mode"].as_str()? == "Flat" { Mode::Flat } else { Mode::Ring };
    let buflen = v["buflen"].as_u64()? as usize;
    let rep = Report::new(prop, "quick", "model_checking");
    let m = DecModel::new(prop, &s, mode, buflen, &rep, &[], &[]);
    let mut st = m.init();
    let mut path = vec![];
    for a in v["schedule"].as_array()? {
        let k = a[0].as_i64()?;
        let b = a[1].as_i64()?;
        let act = (if k < 0 { REST } else { k as u32 }, if b < 0 { REST } else { b as u32 });
        path.push(act);
        if !m.step(&mut st, act, &path) {
            break;
        }
        if m.terminal(&st) {
            break;
        }
    }
    if !st.bad {
        m.complete(&mut st, &mut path);
        m.at_end(&st, &path);
    }
    if rep.violation_count() > 0 {
        Some(format!("{} violation(s) on replay of {} calls", rep.violation_count(), path.len()))
    } else {
        None
    }
}
