//! C06: end of stream detected exactly; bytes after it never consumed — for every trailing
//! string, chunking and entry point (flat, ring, streaming wrapper, C API).
use crate::capi::{self, Place};
use crate::drv::*;
use crate::evidence::Report;
use crate::gen::GenStream;
use crate::props::selftest::{machinery_fail, triangulate};
use crate::util::{hex, par_for, unhex};
use crate::{corpus, guarded, streams, watchdog};
use miniz_oxide::inflate::stream::{inflate, InflateState};
use miniz_oxide::inflate::TINFLStatus;
use miniz_oxide::{DataFormat, MZFlush};
use serde_json::{json, Value};

pub const ENTRY: &[&str] = &["flat", "ring32k", "flat-ignore-adler", "inflate", "inflate-ignore-adler", "mz_inflate", "mz_uncompress", "tinfl_decompress", "tinfl_mem_to_mem", "flat-reused", "inflate-reused", "flat-reused-abandoned", "flat-reused-failed", "inflate-reused-abandoned", "inflate-finish", "mz_inflate-finish", "mz_inflate-reinit"];

/// A complete small stream of the *other* framing, decoded by the object before it is
/// re-initialised and used for the stream under test ("which entry point" includes a recycled decoder).
fn other_format_stream(zlib: bool) -> Vec<u8> {
    reuse_history_bytes(0, zlib).0
}

fn trailer(kind: u8, len: usize, stream: &[u8]) -> Vec<u8> {
    match kind {
        0 => vec![0x00; len],
        1 => vec![0xff; len],
        _ => stream.iter().cycle().take(len).cloned().collect(),
    }
}

/// chunking: 0 = one call, usize::MAX = bytewise, c = single cut at c
fn cuts_of(ch: usize, total: usize) -> Vec<usize> {
    if ch == 0 {
        vec![]
    } else if ch == usize::MAX {
        (1..total).collect()
    } else {
        vec![ch]
    }
}

/// Σ consumed through one entry point; Err on any deviation from the property.
pub fn consumed_via(ep: &str, s: &GenStream, data: &[u8], ch: usize) -> Result<(), String> {
    let want = s.bytes.len();
    let n = s.plain.len();
    let zf = if s.zlib { F_ZLIB } else { 0 };
    let check = |what: &str, done: bool, consumed: usize, out: &[u8]| -> Result<(), String> {
        if !done {
            return Err(format!("{}: stream not reported finished", what));
        }
        if out != &s.plain[..] {
            return Err(format!("{}: wrong output ({} bytes, expected {})", what, out.len(), n));
        }
        if consumed != want {
            return Err(format!("{}: reported {} input bytes consumed, the stream is exactly {} bytes ({} trailing bytes offered)", what, consumed, want, data.len() - want));
        }
        Ok(())
    };
    match ep {
        "flat" => {
            let r = run_cuts(data, Mode::Flat, n + 16, zf, &cuts_of(ch, data.len()), false, 0x11);
            check("flat", r.status == TINFLStatus::Done, r.consumed, &r.out)
        }
        "flat-reused" | "flat-reused-abandoned" | "flat-reused-failed" => {
            let kind = match ep { "flat-reused" => 0, "flat-reused-abandoned" => 1, _ => 2 };
            let r = run_cuts_with(data, Mode::Flat, n + 16, zf, &cuts_of(ch, data.len()), false, 0x11, |d| apply_reuse_history(d, kind, s.zlib));
            check(&format!("flat, decoder reused ({}) after init()", REUSE_KINDS[kind]), r.status == TINFLStatus::Done, r.consumed, &r.out)
        }
        "flat-ignore-adler" => {
            if !s.zlib {
                return Ok(());
            }
            let r = run_cuts(data, Mode::Flat, n + 16, zf | F_IGN, &cuts_of(ch, data.len()), false, 0x11);
            check("flat+IGNORE_ADLER32", r.status == TINFLStatus::Done, r.consumed, &r.out)
        }
        "ring32k" => {
            let r = run_cuts(data, Mode::Ring, 32768, zf, &cuts_of(ch, data.len()), false, 0x11);
            check("ring", r.status == TINFLStatus::Done, r.consumed, &r.out)
        }
        "inflate" | "inflate-ignore-adler" | "inflate-reused" | "inflate-reused-abandoned" | "inflate-finish" => {
            if ep == "inflate-ignore-adler" && !s.zlib {
                return Ok(());
            }
            let fmt = if ep == "inflate-ignore-adler" {
                DataFormat::ZLibIgnoreChecksum
            } else if s.zlib {
                DataFormat::Zlib
            } else {
                DataFormat::Raw
            };
            let mut st = InflateState::new_boxed(fmt);
            if ep == "inflate-reused" {
                st = InflateState::new_boxed(if s.zlib { DataFormat::Raw } else { DataFormat::Zlib });
                let prev = other_format_stream(s.zlib);
                let mut scratch = vec![0u8; 256];
                let _ = inflate(&mut st, &prev, &mut scratch, MZFlush::Finish);
                st.reset(fmt);
            }
            if ep == "inflate-reused-abandoned" {
                let (prev, _) = reuse_history_bytes(1, s.zlib);
                let mut scratch = vec![0u8; 4096];
                let _ = inflate(&mut st, &prev, &mut scratch, MZFlush::None);
                st.reset_as(miniz_oxide::inflate::stream::MinReset);
            }
            // "inflate-finish": the first chunk with flush None, everything after it with Finish and a
            // 7-byte output buffer (Finish calls that run out of room answer Buf and are repeated)
            let finish_mode = ep == "inflate-finish";
            let mut out = vec![];
            let mut buf = vec![0u8; n + 64];
            let mut ip = 0;
            let mut pts: Vec<usize> = cuts_of(ch, data.len()).into_iter().chain(std::iter::once(data.len())).collect();
            if finish_mode {
                // a Finish request is only meaningful with the whole remaining input on offer
                // (and never on the very first call, where the wrapper decodes straight into the
                // caller's buffer and a short buffer is a documented dead end)
                let first = if pts.len() > 1 { pts[0] } else { 1 };
                pts = vec![first.clamp(1, data.len()), data.len()];
                pts.dedup();
            }
            let mut ended = false;
            'o: for &p in &pts {
                let mut guard = 0;
                loop {
                    let fin = finish_mode && p == data.len();
                    let room = if fin { 7.min(buf.len()) } else { buf.len() };
                    let r = inflate(&mut st, &data[ip..p], &mut buf[..room], if fin { MZFlush::Finish } else { MZFlush::None });
                    if std::env::var("MC_DEBUG").is_ok() {
                        eprintln!("inflate(in={} bytes, room={}) -> {:?} consumed={} written={}", p - ip, buf.len(), r.status, r.bytes_consumed, r.bytes_written);
                    }
                    ip += r.bytes_consumed;
                    out.extend_from_slice(&buf[..r.bytes_written]);
                    match r.status {
                        Ok(miniz_oxide::MZStatus::StreamEnd) => {
                            ended = true;
                            break 'o;
                        }
                        Ok(_) => {
                            if r.bytes_consumed == 0 && r.bytes_written == 0 {
                                break;
                            }
                        }
                        // Finish that ran out of output room: call again
                        Err(miniz_oxide::MZError::Buf) if fin && r.bytes_written == room && room > 0 => {}
                        // starved for input (bytes still in the bit buffer may have been delivered along with it)
                        Err(miniz_oxide::MZError::Buf) if ip == p => break,
                        Err(e) => return Err(format!("inflate(): error {} before stream end", e as i32)),
                    }
                    guard += 1;
                    if guard > 200_000 {
                        return Err("inflate(): no end after 200000 calls".into());
                    }
                }
            }
            check("inflate()", ended, ip, &out)?;
            // a further call after StreamEnd must not consume or deliver anything
            let r = inflate(&mut st, &data[ip..], &mut buf, MZFlush::None);
            if r.bytes_consumed != 0 || r.bytes_written != 0 {
                return Err(format!("inflate(): call after StreamEnd consumed {} / wrote {}", r.bytes_consumed, r.bytes_written));
            }
            Ok(())
        }
        "mz_inflate-reinit" => unsafe {
            // a container walker that re-initialises one live mz_stream per member (no mz_inflateEnd in
            // between): first a different member, then mz_inflateInit2 again, then the stream under test
            let mut zs = capi::new_stream();
            let wb = if s.zlib { 15 } else { -15 };
            if miniz_oxide_c_api::mz_inflateInit2(&mut zs, wb) != 0 {
                return Err("mz_inflateInit2 failed".into());
            }
            let (prev, _) = reuse_history_bytes(0, !s.zlib);
            let _ = capi::stream_call(&mut zs, true, &prev, 0, prev.len(), 4096, 0, Place::End);
            let rc = miniz_oxide_c_api::mz_inflateInit2(&mut zs, wb);
            if rc != 0 {
                miniz_oxide_c_api::mz_inflateEnd(&mut zs);
                return Err(format!("mz_inflateInit2 on a live stream returned {}", rc));
            }
            let mut out = vec![];
            let mut ip = 0;
            let pts: Vec<usize> = cuts_of(ch, data.len()).into_iter().chain(std::iter::once(data.len())).collect();
            let mut ended = false;
            'o3: for &p in &pts {
                let mut guard = 0;
                loop {
                    let o = capi::stream_call(&mut zs, true, data, ip, p - ip, n + 64, 0, Place::End).map_err(|e| format!("mz_inflate accounting: {}", e))?;
                    ip += o.consumed;
                    out.extend_from_slice(&o.out);
                    if o.ret == 1 {
                        ended = true;
                        break 'o3;
                    }
                    if o.ret == -5 && ip >= p {
                        break;
                    }
                    if o.ret < 0 {
                        miniz_oxide_c_api::mz_inflateEnd(&mut zs);
                        return Err(format!("mz_inflate on a re-initialised stream returned {}", o.ret));
                    }
                    guard += 1;
                    if ip >= p || guard > 100_000 {
                        break;
                    }
                }
            }
            let total_in = zs.total_in as usize;
            let total_out = zs.total_out as usize;
            miniz_oxide_c_api::mz_inflateEnd(&mut zs);
            check("mz_inflate on a re-initialised stream", ended, ip, &out)?;
            if total_in != want || total_out != n {
                return Err(format!("mz_inflate on a re-initialised stream: total_in {} / total_out {} consumed-and-produced by this member, expected {} / {}", total_in, total_out, want, n));
            }
            Ok(())
        },
        "mz_inflate-finish" => unsafe {
            // first piece with MZ_NO_FLUSH, then MZ_FINISH with 7-byte output windows: every
            // MZ_BUF_ERROR return in between has consumed input and delivered bytes
            let mut zs = capi::new_stream();
            let rc = miniz_oxide_c_api::mz_inflateInit2(&mut zs, if s.zlib { 15 } else { -15 });
            if rc != 0 {
                return Err(format!("mz_inflateInit2 returned {}", rc));
            }
            let cuts = cuts_of(ch, data.len());
            let first = if cuts.is_empty() { 1 } else { cuts[0] }.clamp(1, data.len());
            let mut out = vec![];
            let o = capi::stream_call(&mut zs, true, data, 0, first, n + 64, 0, Place::End).map_err(|e| format!("mz_inflate accounting: {}", e))?;
            let mut ip = o.consumed;
            out.extend_from_slice(&o.out);
            let mut ended = o.ret == 1;
            let mut guard = 0;
            while !ended {
                let o = capi::stream_call(&mut zs, true, data, ip, data.len() - ip, 7, 4, Place::End).map_err(|e| format!("mz_inflate(MZ_FINISH) accounting: {}", e))?;
                ip += o.consumed;
                out.extend_from_slice(&o.out);
                if o.ret == 1 {
                    ended = true;
                } else if !(o.ret == 0 || o.ret == -5) || (o.consumed == 0 && o.written == 0) || guard > 200_000 {
                    miniz_oxide_c_api::mz_inflateEnd(&mut zs);
                    return Err(format!("mz_inflate(MZ_FINISH, 7-byte windows) returned {} after {} of {} bytes", o.ret, out.len(), n));
                }
                guard += 1;
            }
            let total_in = zs.total_in as usize;
            miniz_oxide_c_api::mz_inflateEnd(&mut zs);
            check("mz_inflate with MZ_FINISH", ended, ip, &out)?;
            if total_in != want {
                return Err(format!("mz_inflate with MZ_FINISH: total_in {} != stream length {}", total_in, want));
            }
            Ok(())
        },
        "mz_inflate" => unsafe {
            let mut zs = capi::new_stream();
            let rc = miniz_oxide_c_api::mz_inflateInit2(&mut zs, if s.zlib { 15 } else { -15 });
            if rc != 0 {
                return Err(format!("mz_inflateInit2 returned {}", rc));
            }
            let mut out = vec![];
            let mut ip = 0;
            let pts: Vec<usize> = cuts_of(ch, data.len()).into_iter().chain(std::iter::once(data.len())).collect();
            let mut ended = false;
            'o2: for &p in &pts {
                let mut guard = 0;
                loop {
                    let o = capi::stream_call(&mut zs, true, data, ip, p - ip, n + 64, 0, Place::End).map_err(|e| format!("mz_inflate accounting: {}", e))?;
                    ip += o.consumed;
                    out.extend_from_slice(&o.out);
                    if o.ret == 1 {
                        ended = true;
                        break 'o2;
                    }
                    if o.ret == -5 && ip >= p {
                        break;
                    }
                    if o.ret < 0 {
                        return Err(format!("mz_inflate returned {}", o.ret));
                    }
                    guard += 1;
                    if ip >= p || guard > 100_000 {
                        break;
                    }
                }
            }
            let total_in = zs.total_in as usize;
            miniz_oxide_c_api::mz_inflateEnd(&mut zs);
            check("mz_inflate", ended, ip, &out)?;
            if total_in != want {
                return Err(format!("mz_inflate: total_in {} != stream length {}", total_in, want));
            }
            Ok(())
        },
        "mz_uncompress" => {
            if !s.zlib || ch != 0 {
                return Ok(());
            }
            let (rc, out) = capi::uncompress(data, n + 8, Place::End);
            if rc != 0 || out != s.plain {
                return Err(format!("mz_uncompress with {} trailing bytes returned {} ({} bytes)", data.len() - want, rc, out.len()));
            }
            Ok(())
        }
        "tinfl_decompress" => unsafe {
            extern "C" {
                fn tinfl_decompressor_alloc() -> *mut miniz_oxide_c_api::tinfl_decompressor;
                fn tinfl_decompressor_free(c: *mut miniz_oxide_c_api::tinfl_decompressor);
            }
            let r = tinfl_decompressor_alloc();
            let mut ip = 0;
            let mut op = 0;
            let mut out = vec![];
            let pts: Vec<usize> = cuts_of(ch, data.len()).into_iter().chain(std::iter::once(data.len())).collect();
            let mut st = 1;
            for &p in &pts {
                let more = if p < data.len() { F_MORE } else { 0 };
                let (s2, c, w, o) = capi::tinfl_once(r, &data[ip..p], n + 16, op, zf | F_FLAT | more, Place::End);
                st = s2;
                if c > p - ip || w > n + 16 - op {
                    tinfl_decompressor_free(r);
                    return Err(format!("tinfl_decompress counts: consumed {} of {}, wrote {}", c, p - ip, w));
                }
                ip += c;
                op += w;
                out.extend_from_slice(&o);
                if st <= 0 {
                    break;
                }
            }
            tinfl_decompressor_free(r);
            check("tinfl_decompress", st == 0, ip, &out)
        },
        "tinfl_mem_to_mem" => {
            if ch != 0 {
                return Ok(());
            }
            let (nw, out) = capi::tinfl_mem_to_mem(data, n + 16, zf as i32, Place::End);
            if nw != n || out != s.plain {
                return Err(format!("tinfl_decompress_mem_to_mem with trailing bytes returned {} (expected {})", nw as isize, n));
            }
            Ok(())
        }
        _ => Err("unknown entry point".into()),
    }
}

pub fn c06_streams(thorough: bool) -> Vec<GenStream> {
    let mut v = vec![];
    v.extend(streams::final_block_variants(None));
    v.extend(streams::final_block_variants(Some((7, 2))));
    v.extend(streams::zlib_wrappers().into_iter().step_by(5));
    v.extend(streams::short_code_then_stored(None).into_iter().step_by(if thorough { 1 } else { 3 }));
    v.extend(streams::short_code_then_stored(Some((7, 2))).into_iter().step_by(if thorough { 2 } else { 7 }));
    // the stored block's payload served out of the bit buffer, for every fill level at the EOB code
    v.extend(streams::literal_run_then_tiny_stored(None, thorough));
    v.extend(streams::literal_run_then_tiny_stored(Some((7, 2)), false).into_iter().step_by(if thorough { 1 } else { 3 }));
    let cc = corpus::compact_corpus(true);
    v.extend(cc.into_iter().step_by(if thorough { 2 } else { 6 }));
    v.extend(corpus::produced_corpus().into_iter().step_by(if thorough { 3 } else { 12 }));
    if thorough {
        v.extend(streams::token_sequences(None, 2));
        v.extend(streams::block_sequences(Some((7, 0)), 2, &[0, 3], streams::BLOCK_KINDS));
    }
    // encoded lengths around multiples of 256 (and 65536): counters of consumed / handed-back bytes
    // narrower than usize would wrap there. A fixed block of k 8-bit literals is exactly k + 2 bytes.
    let mut lens: Vec<usize> = (246..=258).chain(502..=514).collect();
    if thorough {
        lens.extend(758..=770);
        lens.extend(65530..=65542);
    } else {
        lens.extend([65535, 65536]);
    }
    for l in lens {
        for z in [None, Some((7u8, 2u8))] {
            if !thorough && l > 60_000 && z.is_some() {
                continue;
            }
            let t: Vec<crate::refmodel::Token> = (0..l - 2).map(|i| crate::refmodel::Token::Lit(b'a' + (i % 26) as u8)).collect();
            let mut b = crate::gen::StreamBuilder::new(z);
            b.fixed(&t, true);
            v.push(b.finish());
        }
    }
    // outputs of 32768*k + small, so the end arrives just after the ring wrapped / a full window was handed out
    for extra in [0usize, 1, 5, 12] {
        for z in [None, Some((7u8, 2u8))] {
            let mut b = crate::gen::StreamBuilder::new(z);
            let data: Vec<u8> = (0..32768usize).map(|i| (i * 7 + i / 251) as u8).collect();
            b.stored(&data, false);
            let t: Vec<crate::refmodel::Token> = (0..extra).map(|i| crate::refmodel::Token::Lit(b'a' + i as u8)).collect();
            b.fixed(&t, true);
            v.push(b.finish());
        }
    }
    v
}

pub fn run(tier: &str) -> i32 {
    capi::install_fault_handler("C06");
    let rep = Report::new("C06", tier, "exploration");
    let th = rep.thorough();
    let ss = c06_streams(th);
    for s in &ss {
        if let Err(e) = triangulate(s) {
            machinery_fail(&e);
        }
    }
    let tlens: Vec<usize> = (0..=16).chain([17, 32, 64]).collect();
    let counts = par_for(ss.len(), || (0u64, 0u64), |i, acc| {
        let s = &ss[i];
        watchdog::tick(i as u64, 0);
        let big = s.bytes.len() > 4000;
        // the encoded-length family (one literal block of k+2 bytes) is about the length, not the
        // trailer: the reduced trailer menu is enough there
        let lenfam = s.bytes.len() > 240 && s.nblocks == 1 && s.plain.len() + 8 >= s.bytes.len() && s.desc.contains("fixed(");
        for &tl in &tlens {
            if (big || lenfam) && ![0usize, 1, 4, 12].contains(&tl) {
                continue;
            }
            for kind in 0..3u8 {
                if tl == 0 && kind > 0 {
                    continue;
                }
                if (big || lenfam) && kind != 1 && tl > 0 {
                    continue;
                }
                let mut data = s.bytes.clone();
                data.extend(trailer(kind, tl, &s.bytes));
                // chunkings: one call, bytewise, every single cut near the end of the stream and a menu elsewhere
                let mut chs: Vec<usize> = vec![0];
                if data.len() <= 4000 || (tl == 1 && data.len() <= 40_000) {
                    chs.push(usize::MAX);
                }
                let lo = s.bytes.len().saturating_sub(if th { 24 } else { 8 });
                for c in lo..data.len().min(s.bytes.len() + if th { 9 } else { 5 }) {
                    if c >= 1 {
                        chs.push(c);
                    }
                }
                for c in [1usize, 2, s.bytes.len() / 2] {
                    if c >= 1 && c < data.len() && !chs.contains(&c) {
                        chs.push(c);
                    }
                }
                for &ch in &chs {
                    for ep in ENTRY {
                        watchdog::pulse();
                        acc.0 += 1;
                        if tl > 0 {
                            acc.1 += 1;
                        }
                        let r = guarded(|| consumed_via(ep, s, &data, ch));
                        let rp = json!({"stream_hex": hex(&s.bytes), "plain_hex": if s.plain.len() < 2000 { json!(hex(&s.plain)) } else { Value::Null }, "zlib": s.zlib, "desc": s.desc,
                                        "trailer_kind": kind, "trailer_len": tl, "chunking": if ch == usize::MAX { -1 } else { ch as i64 }, "entry_point": ep});
                        match r {
                            Ok(Ok(())) => {}
                            Ok(Err(e)) => rep.violation(&format!("C06/{}/{}", ep, if e.contains("consumed") { "consumed" } else { "result" }), format!("{} :: [{}] trailer {}x{} chunking {}", e, s.desc, kind, tl, ch as isize), rp),
                            Err(p) => rep.violation(&format!("C06/{}/panic", ep), format!("panic {} :: [{}]", p, s.desc), rp),
                        }
                    }
                }
            }
        }
    });
    let evals: u64 = counts.iter().map(|c| c.0).sum();
    let nontriv: u64 = counts.iter().map(|c| c.1).sum();
    rep.set("evaluations", json!(evals));
    rep.set("distinct_nontrivial", json!(nontriv));
    rep.set("streams", json!(ss.len()));
    rep.set("entry_points", json!(ENTRY));
    rep.set("exhaustive", json!(true));
    rep.set("rule", json!("streams whose final block (stored/empty stored/fixed/dynamic/deep dynamic) ends at each bit offset 0..7, raw and zlib, plus corpus, zlib wrappers and outputs of 32768k+{0,1,5,12} bytes; trailing strings of every length 0..=16, 17, 32, 64 filled with 00 / ff / a copy of the stream; chunkings: one call, bytewise, every single cut around the stream end plus a menu; 7 entry points incl. mz_inflate (next_in/avail_in/total_in accounting on guard-paged buffers), mz_uncompress, tinfl_decompress, tinfl_decompress_mem_to_mem; non-trivial = at least one trailing byte; each (stream, trailer, chunking, entry point) is distinct by construction"));
    rep.sample(json!({"stream": ss[3].desc, "trailer": "ff x 5", "chunking": "cut at len-1", "entry_point": "mz_inflate"}));
    rep.sample(json!({"stream": ss[ss.len() - 1].desc, "trailer": "copy of stream x 64", "chunking": "bytewise", "entry_point": "inflate"}));
    if evals < 10_000 {
        println!("MACHINERY vacuous: evals={}", evals);
        rep.finish();
        return 2;
    }
    rep.finish()
}

pub fn replay(v: &Value) -> Option<String> {
    capi::install_fault_handler("C06");
    let bytes = unhex(v["stream_hex"].as_str()?);
    let zlib = v["zlib"].as_bool()?;
    let plain = match v["plain_hex"].as_str() {
        Some(h) => unhex(h),
        None => crate::refmodel::ref_inflate(&bytes, &crate::refmodel::Opts::fmt(zlib)).out,
    };
    let s = GenStream { bytes, plain, deflate_bits: 0, zlib, desc: v["desc"].as_str().unwrap_or("").into(), nblocks: 0, block_starts: vec![], block_out_starts: vec![] };
    let mut data = s.bytes.clone();
    data.extend(trailer(v["trailer_kind"].as_u64()? as u8, v["trailer_len"].as_u64()? as usize, &s.bytes));
    let ch = v["chunking"].as_i64()?;
    let ch = if ch < 0 { usize::MAX } else { ch as usize };
    match guarded(|| consumed_via(v["entry_point"].as_str().unwrap_or(""), &s, &data, ch)) {
        Ok(Ok(())) => None,
        Ok(Err(e)) => Some(e),
        Err(p) => Some(format!("panic {}", p)),
    }
}
