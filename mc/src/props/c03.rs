//! C03: every valid DEFLATE/zlib stream decodes to exactly its plaintext through every entry point.
use crate::drv::*;
use crate::evidence::Report;
use crate::gen::GenStream;
use crate::props::selftest::{machinery_fail, triangulate};
use crate::streams;
use crate::util::{hex, par_for, unhex};
use crate::{corpus, guarded, watchdog};
use miniz_oxide::inflate::core::{decompress, DecompressorOxide};
use miniz_oxide::inflate::{
    decompress_slice_iter_to_slice, decompress_to_vec, decompress_to_vec_with_limit, decompress_to_vec_zlib,
    decompress_to_vec_zlib_with_limit, TINFLStatus,
};
use miniz_oxide::{DataFormat, MZFlush};
use serde_json::{json, Value};
use std::collections::BTreeSet;

pub struct Acc {
    pub evals: u64,
    pub streams: u64,
    pub susp: BTreeSet<(&'static str, i8)>,
    pub edges: BTreeSet<(&'static str, &'static str)>,
    pub nontrivial: u64,
}

impl Acc {
    pub fn new() -> Acc {
        Acc { evals: 0, streams: 0, susp: BTreeSet::new(), edges: BTreeSet::new(), nontrivial: 0 }
    }
}

/// All streams of the tier: grammar (raw + zlib), zlib wrappers, produced corpora.
pub fn all_streams(thorough: bool) -> Vec<GenStream> {
    let mut v = streams::grammar(None, thorough);
    v.extend(streams::grammar(Some((7, 2)), false));
    v.extend(streams::zlib_wrappers());
    v.extend(corpus::compact_corpus(true));
    v.extend(corpus::produced_corpus());
    v
}

/// Run one stream through entry point `ep`; Err(description) on any deviation.
pub fn entry_point(s: &GenStream, ep: &str, acc: Option<&mut Acc>) -> Result<(), String> {
    let data = &s.bytes;
    let n = s.plain.len();
    let zf = if s.zlib { F_ZLIB } else { 0 };
    let expect = |st: TINFLStatus, out: &[u8], consumed: usize, what: &str| -> Result<(), String> {
        if st != TINFLStatus::Done {
            return Err(format!("{}: status {} instead of Done", what, status_name(st)));
        }
        if out != &s.plain[..] {
            let p = out.iter().zip(s.plain.iter()).position(|(a, b)| a != b).unwrap_or(out.len().min(n));
            return Err(format!("{}: output differs from the plaintext at byte {} (got {} bytes, expected {})", what, p, out.len(), n));
        }
        if consumed != data.len() {
            return Err(format!("{}: consumed {} of {} stream bytes", what, consumed, data.len()));
        }
        Ok(())
    };
    match ep {
        "E1-to_vec" => {
            let r = if s.zlib { decompress_to_vec_zlib(data) } else { decompress_to_vec(data) };
            match r {
                Ok(v) if v == s.plain => {}
                Ok(v) => return Err(format!("decompress_to_vec: wrong output ({} bytes, expected {})", v.len(), n)),
                Err(e) => return Err(format!("decompress_to_vec: error status {}", status_name(e.status))),
            }
            let r = if s.zlib { decompress_to_vec_zlib_with_limit(data, usize::MAX) } else { decompress_to_vec_with_limit(data, usize::MAX) };
            match r {
                Ok(v) if v == s.plain => Ok(()),
                Ok(_) => Err("decompress_to_vec_with_limit(MAX): wrong output".into()),
                Err(e) => Err(format!("decompress_to_vec_with_limit(MAX): error status {}", status_name(e.status))),
            }
        }
        "E2-flat" => {
            for cap in [n, n + 1, n + 300] {
                let r = run_const(data, Mode::Flat, cap, zf, usize::MAX, usize::MAX, 0xAA);
                expect(r.status, &r.out, r.consumed, &format!("flat one call cap={}", cap))?;
            }
            Ok(())
        }
        "E3-ring32k" => {
            let r = run_const(data, Mode::Ring, 32768, zf, usize::MAX, usize::MAX, 0);
            expect(r.status, &r.out, r.consumed, "ring 32768 wrap loop")?;
            let r = run_const(data, Mode::Ring, 32768, zf, 4096, 1000, 0x55);
            expect(r.status, &r.out, r.consumed, "ring 32768 chunk 4096 budget 1000")
        }
        "E4-slice-iter" => {
            let mut out = vec![0u8; n + 1];
            let r = decompress_slice_iter_to_slice(&mut out[..n], std::iter::once(&data[..]), s.zlib, false);
            if r != Ok(n) || out[..n] != s.plain[..] {
                return Err(format!("slice_iter one slice exact buffer: {:?}", r.map_err(status_name)));
            }
            // every two-slice split (menu for long streams), one spare output byte
            let cuts: Vec<usize> = if data.len() <= 400 {
                (0..=data.len()).collect()
            } else {
                let mut c: Vec<usize> = (0..=16).chain([data.len() / 2, data.len() - 5, data.len() - 4, data.len() - 1, data.len()]).collect();
                c.extend((1..8).map(|k| data.len() * k / 8));
                c
            };
            for &c in &cuts {
                let parts = [&data[..c], &data[c..]];
                let r = decompress_slice_iter_to_slice(&mut out, parts.iter().cloned(), s.zlib, false);
                if r != Ok(n) || out[..n] != s.plain[..] {
                    return Err(format!("slice_iter split at {} with one spare byte: {:?}", c, r.map_err(status_name)));
                }
            }
            if data.len() <= 70000 {
                let r = decompress_slice_iter_to_slice(&mut out, data.chunks(1), s.zlib, false);
                if r != Ok(n) || out[..n] != s.plain[..] {
                    return Err(format!("slice_iter one-byte slices with one spare byte: {:?}", r.map_err(status_name)));
                }
            }
            // iterators that yield empty slices (first, between, last) and uneven tiny slices
            if data.len() <= 4000 {
                let e: &[u8] = &[];
                let mut parts: Vec<&[u8]> = vec![e, e];
                let mut i = 0;
                let mut w = 1;
                while i < data.len() {
                    let k = w.min(data.len() - i);
                    parts.push(&data[i..i + k]);
                    parts.push(e);
                    i += k;
                    w = w % 5 + 1;
                }
                parts.push(e);
                let r = decompress_slice_iter_to_slice(&mut out, parts.iter().cloned(), s.zlib, false);
                if r != Ok(n) || out[..n] != s.plain[..] {
                    return Err(format!("slice_iter with empty and 1..5-byte slices, one spare byte: {:?}", r.map_err(status_name)));
                }
            }
            Ok(())
        }
        "E5-inflate" => {
            let fmt = if s.zlib { DataFormat::Zlib } else { DataFormat::Raw };
            for (chunk, room) in [(usize::MAX, usize::MAX), (1, 1), (3, 7), (4096, 1000), (usize::MAX, 1)] {
                if (chunk == 1 || room == 1) && data.len() + n > 300_000 {
                    continue;
                }
                let r = inflate_loop_const(data, fmt, chunk, room.min(n + 64), MZFlush::None);
                if r.code != 1 || r.out != s.plain || r.consumed != data.len() {
                    return Err(format!(
                        "inflate() None loop chunk={} room={}: code {} out {}/{} consumed {}/{}",
                        chunk, room, r.code, r.out.len(), n, r.consumed, data.len()
                    ));
                }
            }
            let r = inflate_loop_const(data, fmt, usize::MAX, n + 1, MZFlush::Finish);
            if r.code != 1 || r.out != s.plain || r.consumed != data.len() || r.calls != 1 {
                return Err(format!("inflate() single Finish: code {} out {}/{} consumed {}/{}", r.code, r.out.len(), n, r.consumed, data.len()));
            }
            // j calls with flush None and `room` bytes of output each (the whole input on offer), then Finish
            // with ample room until the stream ends: the switch to Finish after exact fractions and
            // multiples of the 32 KiB window have been delivered
            for (room, j) in [(16384usize, 2usize), (32768, 1), (16384, 4), (8192, 4), (32768, 2), (1, 3)] {
                let mut st = miniz_oxide::inflate::stream::InflateState::new_boxed(fmt);
                let mut out: Vec<u8> = vec![];
                let mut ip = 0;
                let mut buf = vec![0u8; room];
                let mut code = 0;
                for _ in 0..j {
                    let r = miniz_oxide::inflate::stream::inflate(&mut st, &data[ip..], &mut buf, MZFlush::None);
                    ip += r.bytes_consumed;
                    out.extend_from_slice(&buf[..r.bytes_written]);
                    code = mzres_code(&r.status);
                    if code != 0 {
                        break;
                    }
                }
                if code == 0 {
                    let r = inflate_loop_from(&mut st, data, ip, usize::MAX, n + 64, MZFlush::Finish, out);
                    code = r.code;
                    out = r.out;
                    ip = r.consumed;
                }
                if code != 1 || out != s.plain || ip != data.len() {
                    return Err(format!("inflate() {} x None with {} bytes of room, then Finish: code {} out {}/{} consumed {}/{}", j, room, code, out.len(), n, ip, data.len()));
                }
            }
            Ok(())
        }
        "E7-reused" => {
            // the same decoder object, used before (complete other-format stream / abandoned / failed), then init()
            for kind in 0..REUSE_KINDS.len() {
                for cuts in [vec![], vec![data.len() / 2], (1..data.len().min(300)).collect::<Vec<_>>()] {
                    let r = run_cuts_with(data, Mode::Flat, n + 8, zf, &cuts, false, 0x5c, |d| apply_reuse_history(d, kind, s.zlib));
                    expect(r.status, &r.out, r.consumed, &format!("flat, decoder reused {}", REUSE_KINDS[kind]))?;
                }
                let fmt = if s.zlib { DataFormat::Zlib } else { DataFormat::Raw };
                for reset_kind in 0..2 {
                    let (prev, pflags) = reuse_history_bytes(kind, s.zlib);
                    let pfmt = if pflags & F_ZLIB != 0 { DataFormat::Zlib } else { DataFormat::Raw };
                    let mut st = miniz_oxide::inflate::stream::InflateState::new_boxed(pfmt);
                    let mut scratch = vec![0u8; 4096];
                    let _ = miniz_oxide::inflate::stream::inflate(&mut st, &prev, &mut scratch, MZFlush::None);
                    if reset_kind == 0 || pfmt != fmt {
                        st.reset(fmt);
                    } else {
                        st.reset_as(miniz_oxide::inflate::stream::MinReset);
                    }
                    let r = inflate_loop_from(&mut st, data, 0, 4096, n + 64, MZFlush::None, Vec::new());
                    if r.code != 1 || r.out != s.plain || r.consumed != data.len() {
                        return Err(format!("inflate() on a state reused {} ({}): code {} out {}/{} consumed {}/{}", REUSE_KINDS[kind], if reset_kind == 0 { "reset" } else { "MinReset" }, r.code, r.out.len(), n, r.consumed, data.len()));
                    }
                }
            }
            // two-step histories: a dynamic-block stream, then a stream rejected at its block header
            // (each out-of-range HLIT / HDIST field combination), then init() / reset
            for k in 0..DEEP_HISTORIES.len() {
                let what = format!("after a dynamic stream and a stream rejected with HLIT/HDIST fields {:?}", DEEP_HISTORIES[k]);
                let r = run_cuts_with(data, Mode::Flat, n + 8, zf, &[], false, 0x5c, |d| apply_deep_history(d, k));
                expect(r.status, &r.out, r.consumed, &format!("flat, decoder reused {}", what))?;
                let fmt = if s.zlib { DataFormat::Zlib } else { DataFormat::Raw };
                for min in [false, true] {
                    let mut st = deep_history_state(k, fmt, min);
                    let r = inflate_loop_from(&mut st, data, 0, 4096, n + 64, MZFlush::None, Vec::new());
                    if r.code != 1 || r.out != s.plain || r.consumed != data.len() {
                        return Err(format!("inflate() on a state reused {} ({}): code {} out {}/{} consumed {}/{}", what, if min { "MinReset" } else { "reset" }, r.code, r.out.len(), n, r.consumed, data.len()));
                    }
                }
            }
            Ok(())
        }
        "E6-bytewise" => {
            // byte-at-a-time input and 1-byte output budgets: same result; records suspension coverage
            if data.len() + n > 400_000 {
                return Ok(());
            }
            let mut acc = acc;
            for (chunk, budget, mode, blen) in [(1usize, usize::MAX, Mode::Flat, n + 8), (usize::MAX, 1usize, Mode::Flat, n + 8), (1, 1, Mode::Ring, 32768), (2, 3, Mode::Flat, n)] {
                let mut d = DecDrv::new(mode, blen, zf, 0x33);
                let mut prev: &'static str = "Start";
                drive(&mut d, data, chunk, budget, &mut |d, o| {
                    if let Some(a) = acc.as_deref_mut() {
                        let sn = dec_state_name(&d.r);
                        a.susp.insert((sn, o.status as i8));
                        a.edges.insert((prev, sn));
                        prev = sn;
                    }
                });
                expect(d.last.unwrap(), &d.out, d.in_pos, &format!("chunk={} budget={} {:?}", chunk, budget, mode))?;
            }
            Ok(())
        }
        _ => Err(format!("unknown entry point {}", ep)),
    }
}

pub const ENTRY_POINTS: &[&str] = &["E1-to_vec", "E2-flat", "E3-ring32k", "E4-slice-iter", "E5-inflate", "E6-bytewise", "E7-reused"];

fn rp(s: &GenStream, ep: &str) -> Value {
    if s.bytes.len() <= 4096 {
        json!({"stream_hex": hex(&s.bytes), "plain_hex": hex(&s.plain), "zlib": s.zlib, "desc": s.desc, "entry_point": ep})
    } else {
        // long streams are regenerated from the grammar by description
        json!({"stream_desc": s.desc, "zlib": s.zlib, "entry_point": ep, "stream_len": s.bytes.len()})
    }
}

pub fn run(tier: &str) -> i32 {
    let rep = Report::new("C03", tier, "exploration");
    let th = rep.thorough();
    let streams = all_streams(th);
    // triangulate the oracle first
    let bad = par_for(streams.len(), Vec::new, |i, acc: &mut Vec<String>| {
        if let Err(e) = triangulate(&streams[i]) {
            acc.push(e);
        }
    });
    if let Some(e) = bad.into_iter().flatten().next() {
        machinery_fail(&e);
    }
    let accs = par_for(streams.len(), Acc::new, |i, acc| {
        let s = &streams[i];
        acc.streams += 1;
        if s.plain.len() > 0 {
            acc.nontrivial += 1;
        }
        for (k, ep) in ENTRY_POINTS.iter().enumerate() {
            watchdog::tick(i as u64, k as u64);
            acc.evals += 1;
            match guarded(|| entry_point(s, ep, Some(&mut *acc))) {
                Ok(Ok(())) => {}
                Ok(Err(e)) => rep.violation(&format!("C03/{}/{}", ep, site_of(s)), format!("{} on stream [{}]", e, s.desc), rp(s, ep)),
                Err(p) => rep.violation(&format!("C03/panic/{}", ep), format!("panic {} on stream [{}]", p, s.desc), rp(s, ep)),
            }
        }
    });
    let mut susp = BTreeSet::new();
    let mut edges = BTreeSet::new();
    let (mut evals, mut nontriv) = (0, 0);
    for a in accs {
        evals += a.evals;
        nontriv += a.nontrivial;
        susp.extend(a.susp);
        edges.extend(a.edges);
    }
    // generator statistics: code lengths decoded per alphabet (from the reference trace)
    let (mut ll_used, mut d_used) = (0u16, 0u16);
    for s in streams.iter().filter(|s| s.bytes.len() < 5000) {
        let t = crate::refmodel::ref_inflate(&s.bytes, &crate::refmodel::Opts::fmt(s.zlib));
        for b in &t.blocks {
            ll_used |= b.litlen_lens_used;
            d_used |= b.dist_lens_used;
        }
    }
    rep.set("evaluations", json!(evals));
    rep.set("streams", json!(streams.len()));
    rep.set("distinct_nontrivial", json!(nontriv));
    rep.set("entry_points", json!(ENTRY_POINTS));
    rep.set("exhaustive", json!(true));
    rep.set("rule", json!("streams: grammar G (every length 3..=258 x 60 boundary distances, distance sweeps, chain codes of every max length 2..=15 in both alphabets, alternative code-length encodings incl. every 16/17/18 count and boundary-crossing runs, all block-kind sequences x 8 alignments, all short token sequences, stored edges, final-block variants) raw and zlib, all 32 valid zlib wrappers, zlib-produced and crate-produced streams; each through 6 entry-point families; non-trivial = non-empty plaintext; streams are distinct by construction"));
    rep.set("suspension_pairs", json!(susp.len()));
    rep.set("suspension_states", json!(susp.iter().map(|s| s.0).collect::<BTreeSet<_>>()));
    rep.set("suspension_edges", json!(edges.len()));
    rep.set("litlen_code_lengths_decoded_mask", json!(ll_used));
    rep.set("dist_code_lengths_decoded_mask", json!(d_used));
    for s in streams.iter().step_by(streams.len() / 5 + 1) {
        rep.sample(json!({"stream": s.desc, "bytes": s.bytes.len(), "plain": s.plain.len()}));
    }
    let all15 = 0xfffe;
    if ll_used & all15 != all15 || d_used & all15 != all15 {
        rep.warn(format!("not every code length 1..=15 decoded: litlen mask {:#x}, dist mask {:#x}", ll_used, d_used));
    }
    if streams.len() < 500 || (HOOKS && susp.len() < 12) {
        println!("MACHINERY vacuous: streams={} suspension pairs={}", streams.len(), susp.len());
        rep.finish();
        return 2;
    }
    rep.finish()
}

fn site_of(s: &GenStream) -> String {
    // coarse site key: the stream family (first word of the last block description)
    let d = s.desc.split(' ').last().unwrap_or("");
    let fam: String = d.chars().take_while(|c| c.is_alphabetic() || *c == '-').collect();
    format!("{}{}", if s.zlib { "zlib/" } else { "raw/" }, fam)
}

pub fn replay(v: &Value) -> Option<String> {
    let ep = v["entry_point"].as_str()?.to_string();
    let zlib = v["zlib"].as_bool()?;
    let s = if let Some(h) = v["stream_hex"].as_str() {
        GenStream {
            bytes: unhex(h),
            plain: unhex(v["plain_hex"].as_str()?),
            deflate_bits: 0,
            zlib,
            desc: v["desc"].as_str().unwrap_or("").to_string(),
            nblocks: 0,
            block_starts: vec![],
            block_out_starts: vec![],
        }
    } else {
        let desc = v["stream_desc"].as_str()?;
        all_streams(true).into_iter().find(|s| s.desc == desc && s.zlib == zlib)?
    };
    match guarded(|| entry_point(&s, &ep, None)) {
        Ok(Ok(())) => None,
        Ok(Err(e)) => Some(e),
        Err(p) => Some(format!("panic: {}", p)),
    }
}

#[allow(dead_code)]
fn _unused(_: &mut DecompressorOxide) {
    let _ = decompress;
}
