//! C11: the window size declared in the zlib header bounds every match distance.
use crate::drv::*;
use crate::evidence::Report;
use crate::props::c01::{strat_name, STRATS};
use crate::refmodel::*;
use crate::util::{hex, par_for, unhex, Lcg};
use crate::zlibffi::z_inflate;
use crate::{guarded, watchdog};
use miniz_oxide::deflate::core::{compress, CompressorOxide, TDEFLFlush, TDEFLStatus};
use miniz_oxide::inflate::TINFLStatus;
use miniz_oxide::DataFormat;
use serde_json::{json, Value};

#[derive(Clone, Copy, Debug)]
pub struct Case {
    pub wbits: u8,
    pub level: u8,
    pub strat: u8,
    /// Some(l): call set_compression_level_raw(l) before the first compress call
    pub relevel: Option<u8>,
    /// which setter carries `relevel`: 0 = set_compression_level_raw(l), 1 = set_format_and_level(Zlib, l)
    /// (may be refused: the declared window then stays), 2 = set_format_and_level(ZLibIgnoreChecksum, l)
    pub setter: u8,
    pub r: usize,
    pub filler: u8,
    pub d: usize,
    /// Some(c): first call offers c bytes with a Sync flush, then Finish with the rest
    pub sync_cut: Option<usize>,
    /// filler bytes in front of the pattern: moves the repeat to an absolute stream offset
    /// (the second copy then starts at base + d: around 32 KiB, 64 KiB, 128 KiB boundaries)
    pub base: usize,
    /// apply `relevel` after the Sync call (mid-stream) instead of before the first call
    pub relevel_mid: bool,
    /// the compressor object has been used for another stream and reset() before this one
    pub pre_reset: bool,
    /// the first part (up to sync_cut) is fed with flush None instead of Sync: the level change
    /// of `relevel_mid` then happens with input pending and no block (no header) emitted yet
    pub cut_none: bool,
}

pub fn input_of(c: &Case) -> Vec<u8> {
    let mut l = Lcg(0x5151 ^ crate::util::seed() ^ ((c.r as u64) << 20));
    let y: Vec<u8> = (0..c.r).map(|_| l.byte() | 1).collect();
    let mut v: Vec<u8> = (0..c.base).map(|i| if c.filler == 0 { 0 } else { [0x10u8, 0x20, 0x30, 0x40, 0x50, 0x60, 0x70][i % 7] }).collect();
    v.extend_from_slice(&y);
    for i in 0..c.d - c.r {
        v.push(if c.filler == 0 { 0 } else { [0x10u8, 0x20, 0x30, 0x40, 0x50, 0x60, 0x70][i % 7] });
    }
    v.extend_from_slice(&y);
    if c.cut_none {
        // enough further input for the compressor to have *processed* the second copy (it works in
        // 4096-byte refills) while everything is still pending in its first block
        v.extend(std::iter::repeat(0x2e).take(9000));
    }
    // a short tail so the far match is not at the very end
    v.extend_from_slice(b"tail.");
    v
}

pub fn check(c: &Case) -> Result<(usize, usize), (String, String)> {
    let input = input_of(c);
    let mut comp = CompressorOxide::with_params(DataFormat::Zlib, c.level, STRATS[c.strat as usize], c.wbits);
    if c.pre_reset {
        // the window setting belongs to the object, not to its first stream
        let mut scratch = vec![0u8; 4096];
        let _ = compress(&mut comp, b"an earlier stream on the same object, an earlier stream", &mut scratch, TDEFLFlush::Finish);
        comp.reset();
    }
    if let (Some(l), false) = (c.relevel, c.relevel_mid) {
        match c.setter {
            0 => comp.set_compression_level_raw(l),
            1 => {
                let _ = comp.set_format_and_level(DataFormat::Zlib, l);
            }
            _ => {
                let _ = comp.set_format_and_level(DataFormat::ZLibIgnoreChecksum, l);
            }
        }
    }
    let mut out = vec![0u8; input.len() + input.len() / 4 + 512];
    let mut op = 0;
    let mut ip = 0;
    if let Some(cut) = c.sync_cut {
        let cut = if c.cut_none { input.len() - 5 } else { cut.min(input.len()) };
        let (st, ni, no) = compress(&mut comp, &input[..cut], &mut out, if c.cut_none { TDEFLFlush::None } else { TDEFLFlush::Sync });
        if st != TDEFLStatus::Okay || ni != cut {
            return Err(("compress-error".into(), format!("Sync call returned {} consumed {}/{}", st as i32, ni, cut)));
        }
        ip = ni;
        op = no;
        if let (Some(l), true) = (c.relevel, c.relevel_mid) {
            // a level change in mid-stream (the header is out already; strategy flags may change)
            comp.set_compression_level_raw(l);
        }
    }
    let mut calls = 0;
    loop {
        let (st, ni, no) = compress(&mut comp, &input[ip..], &mut out[op..], TDEFLFlush::Finish);
        ip += ni;
        op += no;
        calls += 1;
        match st {
            TDEFLStatus::Done => break,
            TDEFLStatus::Okay if calls < 100 => {
                let l = out.len();
                out.resize(l * 2, 0);
            }
            other => return Err(("compress-error".into(), format!("compress returned {}", other as i32))),
        }
    }
    out.truncate(op);
    let cinfo = (out[0] >> 4) as u32;
    let w_eff = c.wbits.min(15).max(8) as u32;
    if cinfo + 8 > w_eff {
        return Err((format!("header-declares-more/w={}", c.wbits), format!("header declares window bits {} for a compressor created with window_bits {}", cinfo + 8, c.wbits)));
    }
    let declared = 1usize << (cinfo + 8);
    let mut o = Opts::zlib();
    o.strict_producer = true;
    let t = ref_inflate(&out, &o);
    if !t.is_complete() || t.out != input || t.consumed != out.len() {
        return Err(("not-a-valid-stream".into(), format!("reference decoder: {:?}", t.verdict)));
    }
    let route = if c.level == 0 { "stored" } else if c.wbits < 12 { "w<12" } else if c.wbits < 15 { "w12-14" } else { "w15" };
    if t.max_dist > declared {
        let (len, dist) = t.tokens().filter_map(|k| if let Token::Match { len, dist } = *k { Some((len, dist)) } else { None }).max_by_key(|x| x.1).unwrap();
        return Err((
            format!("distance-exceeds-declared-window/{}", route),
            format!("match(len {}, dist {}) with a declared window of {} bytes (window_bits {})", len, dist, declared, c.wbits),
        ));
    }
    // a decoder that allocates only the declared window decodes the stream
    let r = run_const(&out, Mode::Ring, declared, F_ZLIB, usize::MAX, usize::MAX, 0);
    if r.status != TINFLStatus::Done || r.out != input {
        return Err((format!("declared-window-ring-decode/{}", route), format!("crate decoder with a {}-byte ring: {}", declared, status_name(r.status))));
    }
    let z = z_inflate(&out, (cinfo + 8) as i32, 64, input.len() + 64);
    if !z.end || z.out != input {
        return Err((format!("zlib-declared-window-decode/{}", route), format!("system zlib with windowBits {} (64-byte output chunks): code {}", cinfo + 8, z.code)));
    }
    Ok((t.max_dist, declared))
}

fn to_json(c: &Case) -> Value {
    json!({"wbits": c.wbits, "level": c.level, "strat": c.strat, "relevel": c.relevel, "setter": c.setter, "r": c.r, "filler": c.filler, "d": c.d, "sync_cut": c.sync_cut, "base": c.base, "relevel_mid": c.relevel_mid, "pre_reset": c.pre_reset, "cut_none": c.cut_none})
}

pub fn run(tier: &str) -> i32 {
    let rep = Report::new("C11", tier, "exploration");
    let th = rep.thorough();
    let mut cases: Vec<Case> = vec![];
    // 8..=15 is the property's range; 1, 7, 16, 255 exercise the documented clamps (window_bits 0
    // does not produce zlib framing at all and is examined under C09)
    let ws: Vec<u8> = (8..=15).chain([1u8, 7, 16, 255]).collect();
    for &w in &ws {
        let weff = w.min(15).max(8) as u32;
        let win = 1usize << weff;
        let mut ds: Vec<usize> = vec![257, 258, 300, 511, 512, 513, 1023, 1025, 2049, 4095, 4096, 4097, 5000, 8193, 16385, 20000, 32767, 32768];
        ds.extend([win - 1, win, win + 1, win + 2, win + 3, 2 * win + 1]);
        ds.retain(|&d| d <= 32768 && d > 258);
        ds.sort();
        ds.dedup();
        for level in 0..=10u8 {
            for strat in 0..5u8 {
                let relevels: Vec<Option<u8>> = if th { vec![None, Some(1), Some(6), Some(0)] } else if (level + strat) % 4 == 0 { vec![None, Some(6)] } else { vec![None] };
                for relevel in relevels {
                    for &r in &[8usize, 40, 258] {
                        if !th && r == 40 && (level as usize + strat as usize) % 3 != 0 {
                            continue;
                        }
                        for filler in 0..2u8 {
                            for &d in &ds {
                                let near = d + 4 > win && d < win + 8;
                                if !th && !near && (d + level as usize + r) % 3 != 0 {
                                    continue;
                                }
                                cases.push(Case { wbits: w, level, strat, relevel, setter: 0, r, filler, d, sync_cut: None, base: 0, relevel_mid: false, pre_reset: false, cut_none: false });
                                // the format-and-level setter before the first call: same format (refused when the level
                                // needs a wider window than declared) and the checksum-ignoring zlib format
                                if relevel.is_some() {
                                    for setter in 1..=2u8 {
                                        cases.push(Case { wbits: w, level, strat, relevel, setter, r, filler, d, sync_cut: None, base: 0, relevel_mid: false, pre_reset: false, cut_none: false });
                                    }
                                } else if near && filler == 0 && r != 40 {
                                    for setter in 1..=2u8 {
                                        for l in [1u8, 6, 9] {
                                            cases.push(Case { wbits: w, level, strat, relevel: Some(l), setter, r, filler, d, sync_cut: None, base: 0, relevel_mid: false, pre_reset: false, cut_none: false });
                                        }
                                    }
                                }
                                // a level setter called with input pending and no block emitted yet (first part fed
                                // with flush None), naming the level the compressor already runs at (its own level, or
                                // 1 where the window setting caps it to 1): changing the level there is documented as
                                // unsupported, setting it to what it is must be harmless (Default strategy only: the setters
                                // reset the strategy, so with any other strategy even the same level is a change)
                                if relevel.is_none() && filler == 0 && level >= 1 && strat == 0 && (near || d >= 4096) && r != 40 {
                                    let same = if (12..15).contains(&w) { 1 } else { level };
                                    cases.push(Case { wbits: w, level, strat, relevel: Some(same), setter: 0, r, filler, d, sync_cut: Some(d + r), base: 0, relevel_mid: true, pre_reset: false, cut_none: true });
                                }
                                // the same on an object that was used and reset() before
                                if relevel.is_none() && (near || d == 32768) && r != 40 {
                                    cases.push(Case { wbits: w, level, strat, relevel, setter: 0, r, filler, d, sync_cut: None, base: 0, relevel_mid: false, pre_reset: true, cut_none: false });
                                }
                                // level changes after the first (Sync-flushed) part of the stream
                                if relevel.is_none() && filler == 0 && (near || d >= 4096) {
                                    for l in [1u8, 6, 9] {
                                        if !th && (l as usize + level as usize + strat as usize) % 3 != 0 {
                                            continue;
                                        }
                                        cases.push(Case { wbits: w, level, strat, relevel: Some(l), setter: 0, r, filler, d, sync_cut: Some(d - 1), base: 0, relevel_mid: true, pre_reset: false, cut_none: false });

                                    }
                                }
                                if near || th {
                                    for back in 0..=3usize {
                                        cases.push(Case { wbits: w, level, strat, relevel, setter: 0, r, filler, d, sync_cut: Some(d - back), base: 0, relevel_mid: false, pre_reset: false, cut_none: false });
                                    }
                                }
                                // the same repeat at absolute stream offsets around the 32 KiB dictionary
                                // wrap and the 64 KiB / 128 KiB position-counter boundaries (the second
                                // copy starts at `at`, the first one d bytes earlier)
                                if (near || d == 32768 || (th && d >= 4096)) && r != 40 && (th || (filler == 0 && relevel.is_none())) {
                                    for at in [32768 + 5, 65536 - 4, 65536 + 37, 131072 + 1] {
                                        if !th && at == 32768 + 5 && (level + strat) % 2 != 0 {
                                            continue;
                                        }
                                        if at > d {
                                            cases.push(Case { wbits: w, level, strat, relevel, setter: 0, r, filler, d, sync_cut: None, base: at - d, relevel_mid: false, pre_reset: false, cut_none: false });
                                        }
                                    }
                                }
                            }
                        }
                    }
                }
            }
        }
    }
    let res = par_for(cases.len(), || (0u64, 0u64, 0usize), |i, acc| {
        watchdog::tick(i as u64, 0);
        let c = &cases[i];
        acc.0 += 1;
        match guarded(|| check(c)) {
            Ok(Ok((maxd, _decl))) => {
                if maxd > 1 {
                    acc.1 += 1;
                }
                acc.2 = acc.2.max(maxd);
            }
            Ok(Err((site, what))) => rep.violation(
                &format!("C11/{}", site),
                format!("{} :: with_params(Zlib, level {}, {}, window_bits {}){} input fill({})+R({})+fill{}({})+R sync_cut={:?}", what, c.level, strat_name(STRATS[c.strat as usize]), c.wbits,
                    c.relevel.map(|l| match c.setter { 0 => format!("+set_compression_level_raw({})", l), 1 => format!("+set_format_and_level(Zlib, {})", l), _ => format!("+set_format_and_level(ZLibIgnoreChecksum, {})", l) }).unwrap_or_default(), c.base, c.r, c.filler, c.d - c.r, c.sync_cut),
                to_json(c),
            ),
            Err(p) => rep.violation("C11/panic", format!("panic {}", p), to_json(c)),
        }
    });
    let evals: u64 = res.iter().map(|r| r.0).sum();
    let nontriv: u64 = res.iter().map(|r| r.1).sum();
    let maxd = res.iter().map(|r| r.2).max().unwrap_or(0);
    rep.set("evaluations", json!(evals));
    rep.set("distinct_nontrivial", json!(nontriv));
    rep.set("max_match_distance_seen", json!(maxd));
    rep.set("window_bits_values", json!(ws));
    rep.set("exhaustive", json!(true));
    rep.set("rule", json!("with_params(Zlib, level 0..=10, 5 strategies, window_bits 8..=15 and the clamp values 0,1,7,16,255), optionally followed by set_compression_level_raw before the first call; inputs R(r) + filler(D-r) + R(r) (the same r incompressible bytes again D bytes later) for r in {8,40,258}, zero and periodic filler, D over a menu incl. window-1..window+3 for the configured window; one-shot (on a new object and on one used for another stream and reset()) and Sync-flush-at-D-0..3-then-Finish schedules, the latter also with set_compression_level_raw(1/6/9) between the two calls; the near-window and 32768 repeats additionally placed so that the second copy starts at absolute stream offsets 32773, 65532, 65573 and 131073 (dictionary wrap, 16-bit position wrap); oracle: header CINFO+8 <= max(w,8), every match distance in the reference trace <= declared window, crate decoder with a ring of exactly the declared size and system zlib with windowBits = CINFO+8 fed 64-byte output chunks both return the input; non-trivial = the stream contains a match at distance > 1; cases are distinct by construction"));
    rep.sample(to_json(&cases[cases.len() / 2]));
    rep.sample(to_json(&cases[cases.len() / 7]));
    if evals < 5000 || maxd < 16385 {
        println!("MACHINERY vacuous: evals={} max distance={}", evals, maxd);
        rep.finish();
        return 2;
    }
    rep.finish()
}

pub fn replay(v: &Value) -> Option<String> {
    let c = Case {
        wbits: v["wbits"].as_u64()? as u8,
        level: v["level"].as_u64()? as u8,
        strat: v["strat"].as_u64()? as u8,
        relevel: v["relevel"].as_u64().map(|x| x as u8),
        setter: v["setter"].as_u64().unwrap_or(0) as u8,
        r: v["r"].as_u64()? as usize,
        filler: v["filler"].as_u64()? as u8,
        d: v["d"].as_u64()? as usize,
        sync_cut: v["sync_cut"].as_u64().map(|x| x as usize),
        base: v["base"].as_u64().unwrap_or(0) as usize,
        relevel_mid: v["relevel_mid"].as_bool().unwrap_or(false),
        pre_reset: v["pre_reset"].as_bool().unwrap_or(false),
        cut_none: v["cut_none"].as_bool().unwrap_or(false),
    };
    match guarded(|| check(&c)) {
        Ok(Ok(_)) => None,
        Ok(Err(e)) => Some(e.1),
        Err(p) => Some(format!("panic {}", p)),
    }
}

#[allow(dead_code)]
fn _u() {
    let _ = (hex(&[]), unhex(""));
}
