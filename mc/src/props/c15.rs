//! C15: mz_deflateBound / mz_compressBound really bound a single finishing zlib compression.
use crate::capi::{self, Place};
use crate::evidence::Report;
use crate::gen::{build_shape, Seg, THETA_FULL};
use crate::util::{par_for, Lcg};
use crate::{guarded, watchdog};
use miniz_oxide::deflate::core::{compress, CompressorOxide, TDEFLFlush, TDEFLStatus};
use miniz_oxide::DataFormat;
use serde_json::{json, Value};
use std::collections::BTreeMap;

pub const CONTENTS: [&str; 13] = ["zeros", "R", "S3", "T", "alt", "ff", "H", "Hm", "Rm", "Hs", "ZH", "ZR", "Hp"];

pub fn content(kind: &str, n: usize) -> Vec<u8> {
    let salt = crate::util::seed();
    match kind {
        "zeros" => vec![0; n],
        "ff" => vec![0xff; n],
        "R" => build_shape(&[(Seg::R, n)], salt),
        "S3" => build_shape(&[(Seg::S3, n)], salt),
        "T" => build_shape(&[(Seg::T, n)], salt),
        "alt" => (0..n).map(|i| if i % 2 == 0 { 0xaa } else { 0x55 }).collect(),
        "H" => build_shape(&[(Seg::H, n)], salt),
        "Hs" => {
            // every byte value occurs, but ~90% of the bytes are >= 144 (9-bit static codes)
            let mut l = Lcg(0x4873 ^ salt);
            (0..n).map(|i| if i < 256 { i as u8 } else { let x = l.next_u32(); if x % 10 == 0 { (x >> 8) as u8 % 144 } else { 144 + ((x >> 8) % 112) as u8 } }).collect()
        }
        "Hp" => {
            // bytes >= 144 without any repeated 3-byte sequence inside the window (so every symbol
            // is a literal and blocks are cut exactly where the compressor's own thresholds say),
            // except for one 4-byte repeat (source ~100 bytes back) 4 bytes before every multiple of
            // P, n = 6P + 400 (the tail keeps the look-ahead full while the last of the six blocks is cut): as P sweeps 31 740..=32 780 a match straddles every possible cut offset,
            // block after block
            let p = (n.max(406) - 400) / 6;
            const A: usize = 112;
            let mut last_seen = vec![0u32; A * A * A];
            let mut l = Lcg(0x4870 ^ salt);
            let mut v: Vec<u8> = Vec::with_capacity(n);
            let key = |a: u8, b: u8, c: u8| ((a - 144) as usize * A + (b - 144) as usize) * A + (c - 144) as usize;
            let mut next_rep = p - 4;
            while v.len() < n {
                let len = v.len();
                if len == next_rep && len > 200 {
                    let src = len - 100 - (len % 7);
                    for i in 0..4 {
                        let c = v[src + i];
                        v.push(c);
                        let m = v.len();
                        last_seen[key(v[m - 3], v[m - 2], c)] = m as u32;
                    }
                    next_rep += p;
                    continue;
                }
                if len == next_rep {
                    next_rep += p;
                }
                let mut tries = 0;
                loop {
                    let c = 144 + (l.next_u32() >> 8) as u8 % 112;
                    let fresh = len < 2 || {
                        let seen = last_seen[key(v[len - 2], v[len - 1], c)] as usize;
                        seen == 0 || len + 1 - seen >= 40_000
                    };
                    tries += 1;
                    if fresh || tries > 50 {
                        v.push(c);
                        if len >= 2 {
                            last_seen[key(v[len - 2], v[len - 1], c)] = (len + 1) as u32;
                        }
                        break;
                    }
                }
            }
            v.truncate(n);
            v
        }
        "ZH" | "ZR" => {
            // a short run first (so the very first block already holds matches and is not "fat"),
            // then incompressible bytes
            let z = n.min(1000);
            let mut v = vec![0u8; z];
            v.extend(build_shape(&[(if kind == "ZH" { Seg::H } else { Seg::R }, n - z)], salt));
            v
        }
        "Hm" | "Rm" => {
            // incompressible with one 258-byte repeat planted every ~25 K (keeps a block "non-fat")
            let mut v = build_shape(&[(if kind == "Hm" { Seg::H } else { Seg::R }, n)], salt);
            let mut l = Lcg(77 ^ salt);
            let mut p = 20_000;
            while p + 600 < n {
                for i in 0..258 {
                    v[p + 300 + i] = v[p + i];
                }
                p += 20_000 + (l.next_u32() % 10_000) as usize;
            }
            v
        }
        _ => unreachable!(),
    }
}

pub fn sizes(th: bool) -> Vec<usize> {
    let mut v: Vec<usize> = (0..=300).collect();
    v.extend(THETA_FULL.iter().cloned());
    for k in 1..=4usize {
        for d in [-1i64, 0, 1] {
            v.push((k as i64 * 31744 + d) as usize);
            v.push((k as i64 * 65536 + d) as usize);
        }
    }
    v.extend([5119, 5120, 5121, 40000, 58000]);
    if th {
        v.extend([(1 << 20) - 1, 1 << 20, (1 << 20) + 1, 4 << 20]);
    } else {
        v.push(1 << 20);
    }
    v.sort();
    v.dedup();
    v
}

/// One case: returns (produced, bound) per path, Err on violation.
pub fn check(kind: &str, n: usize, level: i32, strat: i32) -> Result<(usize, usize), (String, String)> {
    let data = content(kind, n);
    let bound = capi::bound(n);
    if capi::compress_bound(n) != bound {
        return Err(("bound-functions-disagree".into(), format!("mz_compressBound({}) = {} but mz_deflateBound = {}", n, capi::compress_bound(n), bound)));
    }
    let route = |level: i32| if level == 1 { "level=1" } else if level == 0 { "level=0" } else { "level>=2" };
    let sname = ["Default", "Filtered", "HuffmanOnly", "RLE", "Fixed"][strat.clamp(0, 4) as usize];
    // (a) mz_deflateInit2 + one mz_deflate(MZ_FINISH) with avail_out = mz_deflateBound(n)
    let mut produced_max = 0;
    unsafe {
        let mut zs = capi::new_stream();
        let rc = miniz_oxide_c_api::mz_deflateInit2(&mut zs, level, 8, 15, 9, strat);
        if rc != 0 {
            return Err(("init-failed".into(), format!("mz_deflateInit2(level {}, strategy {}) returned {}", level, strat, rc)));
        }
        let o = capi::stream_call(&mut zs, false, &data, 0, n, bound, 4, Place::End).map_err(|e| ("accounting".to_string(), e))?;
        miniz_oxide_c_api::mz_deflateEnd(&mut zs);
        if o.ret != 1 {
            return Err((
                format!("bound/{}/strategy={}/content={}/via=mz_deflate", route(level), sname, kind),
                format!("mz_deflate(MZ_FINISH) with avail_out = mz_deflateBound({}) = {} returned {} after writing {} bytes ({} content)", n, bound, o.ret, o.written, kind),
            ));
        }
        produced_max = produced_max.max(o.written);
    }
    // (a') the same single finishing call on a *recycled* stream: mz_deflateReset after a stream
    // that was abandoned with a block pending (57 344 small-alphabet bytes fed with MZ_NO_FLUSH,
    // nothing emitted yet) and after a finished stream. The bound speaks about n only.
    if n > 300 {
        for hist in 0..2 {
            unsafe {
                let mut zs = capi::new_stream();
                if miniz_oxide_c_api::mz_deflateInit2(&mut zs, level, 8, 15, 9, strat) != 0 {
                    return Err(("init-failed".into(), "mz_deflateInit2 failed".into()));
                }
                // (16-symbol noise: mostly literals, so the pending block holds ~50 000 symbols)
                let mut hl = Lcg(0x7e57 ^ crate::util::seed());
                let prev: Vec<u8> = (0..14 * 4096usize).map(|_| b"0123456789abcdef"[(hl.next_u32() >> 9) as usize % 16]).collect();
                let _ = capi::stream_call(&mut zs, false, &prev, 0, prev.len(), 100_000, if hist == 0 { 0 } else { 4 }, Place::End);
                if miniz_oxide_c_api::mz_deflateReset(&mut zs) != 0 {
                    miniz_oxide_c_api::mz_deflateEnd(&mut zs);
                    return Err(("reset-failed".into(), "mz_deflateReset failed".into()));
                }
                let o = capi::stream_call(&mut zs, false, &data, 0, n, bound, 4, Place::End).map_err(|e| ("accounting".to_string(), e))?;
                miniz_oxide_c_api::mz_deflateEnd(&mut zs);
                if o.ret != 1 {
                    return Err((
                        format!("bound/{}/strategy={}/content={}/via=mz_deflateReset-after-{}", route(level), sname, kind, if hist == 0 { "abandoned" } else { "finished" }),
                        format!("recycled stream: mz_deflate(MZ_FINISH) with avail_out = mz_deflateBound({}) = {} returned {} after writing {} bytes ({} content)", n, bound, o.ret, o.written, kind),
                    ));
                }
                produced_max = produced_max.max(o.written);
            }
        }
    }
    // (b) CompressorOxide::with_params one-shot
    {
        let lv = if level < 0 { 6 } else { level.min(10) } as u8;
        let st = crate::props::c01::STRATS[strat.clamp(0, 4) as usize];
        let mut c = CompressorOxide::with_params(DataFormat::Zlib, lv, st, 15);
        let mut out = vec![0u8; bound + 70_000];
        let (s, ni, no) = compress(&mut c, &data, &mut out, TDEFLFlush::Finish);
        if s != TDEFLStatus::Done || ni != n {
            return Err(("oneshot-not-done".into(), format!("one-shot compress with ample room returned {} consumed {}/{}", s as i32, ni, n)));
        }
        if no > bound {
            return Err((
                format!("bound/{}/strategy={}/content={}/via=with_params", route(level), sname, kind),
                format!("one finishing compression of {} {} bytes produced {} bytes, mz_deflateBound = {}", n, kind, no, bound),
            ));
        }
        produced_max = produced_max.max(no);
    }
    // (c) mz_compress2 (default strategy only) with *dest_len = mz_compressBound(n)
    if strat == 0 {
        let (rc, out) = capi::compress2(&data, level, bound, Place::End);
        if rc != 0 {
            return Err((format!("compress2-fails/{}", route(level)), format!("mz_compress2(level {}) with a destination of mz_compressBound({}) = {} bytes returned {} ({} content)", level, n, bound, rc, kind)));
        }
        produced_max = produced_max.max(out.len());
    }
    Ok((produced_max, bound))
}

pub fn run(tier: &str) -> i32 {
    capi::install_fault_handler("C15");
    let rep = Report::new("C15", tier, "exploration");
    let th = rep.thorough();
    let sz = sizes(th);
    let mut cases: Vec<(usize, usize, i32, i32)> = vec![];
    for (ki, _) in CONTENTS.iter().enumerate() {
        for &n in &sz {
            for level in -1..=10 {
                for strat in 0..=4 {
                    let small = n <= 300;
                    if !th {
                        // quick: all levels x strategies on the threshold sizes for the adversarial
                        // contents, a diagonal elsewhere
                        let adversarial = matches!(CONTENTS[ki], "H" | "Hm" | "R" | "Rm" | "Hs" | "ZH" | "ZR");
                        if small && (n + ki + (level + 1) as usize + strat as usize) % 5 != 0 {
                            continue;
                        }
                        if !small && !adversarial && (level + strat) % 3 != 0 {
                            continue;
                        }
                        if n >= 1 << 20 && !(adversarial && (level == 1 || level == 6) && (strat == 0 || strat == 4)) {
                            continue;
                        }
                    }
                    cases.push((ki, n, level, strat));
                }
            }
        }
    }
    // period sweep for the Hp class (Fixed strategy, lazy levels)
    {
        let ki = CONTENTS.iter().position(|c| *c == "Hp").unwrap();
        cases.retain(|c| c.0 != ki);
        for p in (31_740usize..=32_780).step_by(1) {
            for level in if th { vec![4, 5, 6, 8, 9, 10] } else { vec![4, 9] } {
                cases.push((ki, 6 * p + 400, level, 4));
            }
        }
    }
    let res = par_for(cases.len(), || (0u64, 0u64, BTreeMap::<(usize, i32), (f64, i64)>::new()), |i, acc| {
        watchdog::tick(i as u64, 0);
        let (ki, n, level, strat) = cases[i];
        acc.0 += 1;
        if n > 300 {
            acc.1 += 1;
        }
        let rp = json!({"content": CONTENTS[ki], "n": n, "level": level, "strategy": strat});
        match guarded(|| check(CONTENTS[ki], n, level, strat)) {
            Ok(Ok((produced, bound))) => {
                let e = acc.2.entry((ki, strat)).or_insert((0.0, i64::MIN));
                e.0 = e.0.max(produced as f64 / bound as f64);
                e.1 = e.1.max(produced as i64 - n as i64);
            }
            Ok(Err((site, what))) => rep.violation(&format!("C15/{}", site), what, rp),
            Err(p) => rep.violation("C15/panic", format!("panic {}", p), rp),
        }
    });
    let evals: u64 = res.iter().map(|r| r.0).sum();
    let nontriv: u64 = res.iter().map(|r| r.1).sum();
    let mut slack: BTreeMap<String, Value> = BTreeMap::new();
    let mut merged: BTreeMap<(usize, i32), (f64, i64)> = BTreeMap::new();
    for r in &res {
        for (k, v) in &r.2 {
            let e = merged.entry(*k).or_insert((0.0, i64::MIN));
            e.0 = e.0.max(v.0);
            e.1 = e.1.max(v.1);
        }
    }
    for ((ki, st), (ratio, over)) in merged {
        slack.insert(format!("{}/strategy{}", CONTENTS[ki], st), json!({"max_produced_over_bound": (ratio * 10000.0).round() / 10000.0, "max_produced_minus_n": over}));
    }
    rep.set("evaluations", json!(evals));
    rep.set("distinct_nontrivial", json!(nontriv));
    rep.set("sizes", json!(sz.len()));
    rep.set("max_size", json!(sz.last()));
    rep.set("slack_by_content_and_strategy", json!(slack));
    rep.set("exhaustive", json!(true));
    rep.set("rule", json!("n in 0..=300 (all) + every compressor threshold +-1 + k*31744+-1, k*65536+-1 (k<=4) + 5120+-1, 40000, 58000, 1 MiB (+-1 and 4 MiB in thorough); content in {zeros, R (incompressible), Hs (all byte values, 90% >= 144), S3 (sparse 3-byte matches), T (skewed text), alternating, ff, H (incompressible, all bytes >= 144), Hm/Rm (H/R with a 258-byte repeat every 20-30 K)}; levels -1..=10 x strategies 0..=4; ZH/ZR (1000 zeros, then H/R); through mz_deflateInit2 + one mz_deflate(MZ_FINISH) with avail_out = mz_deflateBound(n) on guard-paged buffers (fresh stream, and for n > 300 a stream recycled with mz_deflateReset after an abandoned and after a finished stream), CompressorOxide::with_params one-shot, and mz_compress2 with *dest_len = mz_compressBound(n); non-trivial = n > 300; cases distinct by construction"));
    rep.sample(json!({"content": "H", "n": 40000, "level": 1, "strategy": 4}));
    rep.sample(json!({"content": "Rm", "n": 65537, "level": 6, "strategy": 0}));
    if evals < 5000 {
        println!("MACHINERY vacuous: evals={}", evals);
        rep.finish();
        return 2;
    }
    rep.finish()
}

pub fn replay(v: &Value) -> Option<String> {
    capi::install_fault_handler("C15");
    match guarded(|| check(v["content"].as_str().unwrap(), v["n"].as_u64().unwrap() as usize, v["level"].as_i64().unwrap() as i32, v["strategy"].as_i64().unwrap() as i32)) {
        Ok(Ok(_)) => None,
        Ok(Err(e)) => Some(e.1),
        Err(p) => Some(format!("panic {}", p)),
    }
}
