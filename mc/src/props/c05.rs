//! C05: decoding arbitrary bytes is total — no panic, no hang, counters within bounds, unusable
//! geometry rejected without touching state, failure is sticky. Full-depth histories on one real
//! decoder object where flags, slice and position change between calls.
use crate::drv::*;
use crate::evidence::Report;
use crate::refmodel::{ref_inflate, Opts};
use crate::util::{hex, par_for, unhex, H128};
use crate::{corpus, guarded, watchdog};
use miniz_oxide::inflate::core::{decompress_with_limit, DecompressorOxide};
use miniz_oxide::inflate::stream::{inflate, InflateState};
use miniz_oxide::inflate::{decompress_to_vec, decompress_to_vec_zlib, decompress_to_vec_zlib_with_limit, TINFLStatus};
use miniz_oxide::{DataFormat, MZFlush};
use serde_json::{json, Value};
use std::collections::BTreeSet;

pub const OUT_LENS: [usize; 15] = [0, 1, 2, 3, 5, 6, 7, 8, 16, 33, 64, 300, 1024, 32768, 40000];

#[derive(Clone, Copy, Debug, PartialEq, Eq)]
pub struct Call {
    /// which pool input the slice comes from (usize::MAX = garbage pattern `gar`)
    pub src: usize,
    pub off: usize,
    pub n: usize,
    pub gar: u8,
    pub flags: u32,
    pub out_len: usize,
    pub out_pos: usize,
    pub budget: usize,
}

impl Call {
    fn to_json(&self) -> Value {
        json!({"src": if self.src == usize::MAX { -1 } else { self.src as i64 }, "off": self.off, "n": self.n, "gar": self.gar,
               "flags": self.flags, "out_len": self.out_len, "out_pos": self.out_pos,
               "budget": if self.budget == usize::MAX { -1 } else { self.budget as i64 }})
    }
    fn from_json(v: &Value) -> Call {
        let src = v["src"].as_i64().unwrap();
        let b = v["budget"].as_i64().unwrap();
        Call {
            src: if src < 0 { usize::MAX } else { src as usize },
            off: v["off"].as_u64().unwrap() as usize,
            n: v["n"].as_u64().unwrap() as usize,
            gar: v["gar"].as_u64().unwrap() as u8,
            flags: v["flags"].as_u64().unwrap() as u32,
            out_len: v["out_len"].as_u64().unwrap() as usize,
            out_pos: v["out_pos"].as_u64().unwrap() as usize,
            budget: if b < 0 { usize::MAX } else { b as usize },
        }
    }
}

/// The pool: the core streams (first calls / every-cut start states are built from these), then the
/// "literal run, then a tiny stored block" family (whole-input calls only; same index space so that
/// replay files stay valid).
pub fn pool() -> Vec<Vec<u8>> {
    let mut v = core_pool();
    v.extend(family());
    v
}

fn family() -> Vec<Vec<u8>> {
    crate::streams::literal_run_then_tiny_stored(None, false).into_iter().map(|g| g.bytes).chain(crate::streams::literal_run_then_tiny_stored(Some((7, 2)), false).into_iter().step_by(3).map(|g| g.bytes)).collect()
}

fn core_pool() -> Vec<Vec<u8>> {
    let mut v: Vec<Vec<u8>> = vec![];
    // the F1 history stream: long matches at distance 8
    let abc: Vec<u8> = b"abcdefgh".iter().cycle().take(400).cloned().collect();
    v.push(miniz_oxide::deflate::compress_to_vec(&abc, 6));
    v.push(miniz_oxide::deflate::compress_to_vec_zlib(&abc, 6));
    v.push(miniz_oxide::deflate::compress_to_vec(&vec![7u8; 700], 1));
    v.push(miniz_oxide::deflate::compress_to_vec_zlib(b"Hello, zlib! Hello, zlib! Hello!", 9));
    v.push(miniz_oxide::deflate::compress_to_vec(b"stored block content here", 0));
    let cc = corpus::compact_corpus(true);
    for s in cc.iter().step_by(cc.len() / 10 + 1) {
        v.push(s.bytes.clone());
    }
    let med = corpus::medium_inputs();
    v.push(miniz_oxide::deflate::compress_to_vec(&med[1].data, 6));
    v.push(miniz_oxide::deflate::compress_to_vec_zlib(&med[6].data, 2));
    // invalid: mutants of the first few
    let base: Vec<Vec<u8>> = v.iter().take(6).cloned().collect();
    for (i, b) in base.iter().enumerate() {
        if b.len() > 6 {
            let mut m = b.clone();
            m[3 + i % 3] ^= 0x10 << (i % 3);
            v.push(m);
            let mut m = b.clone();
            m.truncate(b.len() / 2);
            v.push(m);
        }
    }
    // streams that fail (or meet maximal matches) inside the fast decode loop: plenty of input
    // behind and plenty of room ahead
    {
        use crate::gen::{BitWriter, StreamBuilder};
        use crate::refmodel::Token;
        let tail: Vec<Token> = (0..40u8).map(|i| Token::Lit(0x90 + i)).collect();
        // (a) distance reaching before the start (invalid in flat mode)
        let mut b = StreamBuilder::new(None);
        b.pre_window_zero = true;
        let mut t = vec![Token::Lit(b'a'), Token::Lit(b'b'), Token::Match { len: 5, dist: 30 }];
        t.extend(tail.iter().cloned());
        b.fixed(&t, true);
        v.push(b.finish().bytes);
        // (b) undefined litlen symbol 286 in a fixed block (8-bit code 1100_0110), then padding
        let mut w = BitWriter::new();
        w.put_bits(1, 1);
        w.put_bits(1, 2);
        for _ in 0..4 {
            w.put_code(0x30 + b'a' as u16, 8);
        }
        w.put_code(0b1100_0110, 8);
        for _ in 0..40 {
            w.put_code(0x30 + b'z' as u16, 8);
        }
        v.push(w.bytes.clone());
        // (c) undefined distance symbol 30 after a valid length
        let mut w = BitWriter::new();
        w.put_bits(1, 1);
        w.put_bits(1, 2);
        for _ in 0..4 {
            w.put_code(0x30 + b'a' as u16, 8);
        }
        w.put_code(0b000_0001, 7); // length symbol 257 (len 3)
        w.put_code(30, 5);
        for _ in 0..40 {
            w.put_code(0x30 + b'z' as u16, 8);
        }
        v.push(w.bytes.clone());
        // (d) p literals then (literal, 258-byte match) pairs then a long tail
        for p in 0..=3usize {
            let mut t: Vec<Token> = (0..p).map(|i| Token::Lit(b'p' + i as u8)).collect();
            for i in 0..3u8 {
                t.push(Token::Lit(b'A' + i));
                t.push(Token::Match { len: 258, dist: 1 });
            }
            t.extend(tail.iter().cloned());
            let mut b = StreamBuilder::new(None);
            b.fixed(&t, true);
            v.push(b.finish().bytes);
        }
    }
    // (e) matches whose distance equals the ring size (source position == write position after the
    // ring has been filled exactly once), lengths 3 / 10 / 258, with a tail so that the fast loop runs
    {
        use crate::gen::StreamBuilder;
        use crate::refmodel::Token;
        for l in [1024usize] {
            let hist: Vec<u8> = (0..l).map(|i| (i * 13 + i / 7) as u8).collect();
            let mut t = vec![Token::Lit(b'x'), Token::Match { len: 10, dist: l as u16 }, Token::Match { len: 258, dist: l as u16 }, Token::Match { len: 3, dist: l as u16 }];
            t.extend((0..40u8).map(|i| Token::Lit(0x90 + i)));
            let mut b = StreamBuilder::new(None);
            b.stored(&hist, false);
            b.fixed(&t, true);
            v.push(b.finish().bytes);
        }
    }
    // (f) two dynamic blocks with many 13-15 bit literal/length codes in different assignments
    // (large overflow trees rebuilt per block)
    for st in crate::streams::bushy_deep_streams(None).into_iter().filter(|st| st.bytes.len() < 6000).take(2) {
        v.push(st.bytes);
    }
    v.push(vec![0x05, 0xff, 0xff, 0x00, 0x00]); // dynamic header garbage
    v.push(vec![0x78, 0x9c, 0xed, 0xfd, 0x01]);
    v.push(vec![0xff; 20]);
    v.push(vec![0x00; 20]);
    v
}

fn geometry_ok(flags: u32, out_len: usize, out_pos: usize) -> bool {
    let pow2 = out_len == 0 || out_len.is_power_of_two();
    (flags & F_FLAT != 0 || pow2) && out_pos <= out_len
}

fn fp(r: &DecompressorOxide) -> u128 {
    let mut h = H128::new();
    dec_fp(r, &mut h);
    h.finish128()
}

#[derive(Default)]
struct Acc {
    calls: u64,
    histories: u64,
    states: std::collections::HashSet<u128>,
    statuses: BTreeSet<i8>,
    badparam: u64,
    sticky_checked: u64,
    fail_states: BTreeSet<&'static str>,
}

struct Ctx<'a> {
    pool: &'a [Vec<u8>],
    rep: &'a Report,
    gar: Vec<Vec<u8>>,
}

impl<'a> Ctx<'a> {
    fn input(&self, c: &Call) -> &[u8] {
        if c.src == usize::MAX {
            let g = match c.gar {
                0x00 => 0,
                0xff => 1,
                _ => 2,
            };
            &self.gar[g][..c.n]
        } else {
            let p = &self.pool[c.src];
            let off = c.off.min(p.len());
            &p[off..(off + c.n).min(p.len())]
        }
    }

    /// One call with all per-step oracles. `sticky`: status that must recur (from history).
    /// Returns (status, consumed) or None after reporting a violation.
    fn call(&self, r: &mut DecompressorOxide, c: &Call, out: &mut [u8], hist: &[Call], acc: &mut Acc, prev_failed: bool, prev_adler: bool) -> Option<(TINFLStatus, usize)> {
        let inp = self.input(c);
        let before = if HOOKS && !geometry_ok(c.flags, c.out_len, c.out_pos) { Some(fp(r)) } else { None };
        let o = &mut out[..c.out_len];
        let res = guarded(|| decompress_with_limit(r, inp, o, c.out_pos, c.budget, c.flags));
        acc.calls += 1;
        let mk = || json!({"history": hist.iter().chain(std::iter::once(c)).map(|x| x.to_json()).collect::<Vec<_>>()});
        let (st, cons, wr) = match res {
            Ok(x) => x,
            Err(p) => {
                let site = if p.contains("core.rs") { "C05/panic/inflate-core" } else { "C05/panic/other" };
                self.rep.violation(&format!("{}/{}", site, p.rsplit(':').next().unwrap_or("")), format!("decode call panicked: {} (history of {} calls)", p, hist.len() + 1), mk());
                return None;
            }
        };
        acc.statuses.insert(st as i8);
        if !geometry_ok(c.flags, c.out_len, c.out_pos) {
            acc.badparam += 1;
            if st != TINFLStatus::BadParam || cons != 0 || wr != 0 {
                self.rep.violation("C05/bad-geometry-accepted", format!("geometry (len {}, pos {}, flags {:#x}) returned ({}, {}, {})", c.out_len, c.out_pos, c.flags, status_name(st), cons, wr), mk());
                return None;
            }
            if let Some(b) = before {
                if fp(r) != b {
                    self.rep.violation("C05/bad-geometry-touches-state", "BadParam call changed the decoder state".into(), mk());
                    return None;
                }
            }
            return Some((st, 0));
        }
        let room = c.budget.min(c.out_len - c.out_pos);
        if cons > inp.len() || wr > room {
            self.rep.violation("C05/counts", format!("consumed {} of {}, wrote {} of {} (status {})", cons, inp.len(), wr, room, status_name(st)), mk());
            return None;
        }
        if prev_failed {
            acc.sticky_checked += 1;
            if st != TINFLStatus::Failed {
                self.rep.violation("C05/failed-not-sticky", format!("call after Failed returned {} (flags {:#x})", status_name(st), c.flags), mk());
                return None;
            }
        }
        if prev_adler && c.flags & F_ZLIB != 0 && c.flags & F_IGN == 0 {
            acc.sticky_checked += 1;
            if st != TINFLStatus::Adler32Mismatch {
                self.rep.violation("C05/adler-mismatch-not-sticky", format!("call after Adler32Mismatch returned {}", status_name(st)), mk());
                return None;
            }
        }
        if HOOKS && (st as i8) < 0 {
            acc.fail_states.insert(dec_state_name(r));
        }
        Some((st, cons))
    }
}

/// Pool streams built to reach the fast decode loop (recognised by decoding them: at least 40
/// bytes of output room are needed and the stream is longer than 40 bytes).
fn is_fast_family(p: &[u8]) -> bool {
    // fixed-block streams of the generator start with BFINAL=1, BTYPE=01
    p[0] & 7 == 3
}

fn first_calls(pool: &[Vec<u8>], thorough: bool) -> Vec<Call> {
    let mut v = vec![];
    let flagsets = [F_FLAT, 0, F_ZLIB | F_FLAT, F_ZLIB, F_MORE | F_FLAT, F_MORE, F_MORE | F_ZLIB | F_FLAT, F_FLAT | F_ADLER];
    let geos: &[(usize, usize)] = &[
        (20, 0), (64, 0), (300, 0), (32768, 0), (8, 0), (40000, 5), (16, 3), (1, 0),
        (258, 0), (259, 0), (260, 0), (261, 0), (262, 0), (512, 250), (512, 252), (512, 253),
    ];
    for (pi, p) in pool.iter().enumerate().take(pool.len() - family().len()) {
        let ks: Vec<usize> = if thorough { vec![1, 2, 3, p.len() / 2, p.len().saturating_sub(1), p.len()] } else { vec![1, 3, p.len() / 2, p.len()] };
        for &k in &ks {
            for (fi, &f) in flagsets.iter().enumerate() {
                for (gi, &(ol, op)) in geos.iter().enumerate() {
                    // quick: 1/8 of the generic product, but the whole geometry menu for the
                    // fast-loop family (marked by a 0x90.. literal tail) with everything offered
                    let fast_family = p.len() > 40 && k == p.len() && fi < 2 && is_fast_family(p);
                    if !thorough && (fi + gi + pi) % 8 != 0 && !fast_family {
                        continue;
                    }
                    v.push(Call { src: pi, off: 0, n: k, gar: 0, flags: f, out_len: ol, out_pos: op, budget: usize::MAX });
                }
            }
        }
    }
    v
}

fn second_calls(first: &Call, consumed: usize, pool: &[Vec<u8>], flag_menu: &[u32], full_geo: bool) -> Vec<Call> {
    let mut v = vec![];
    let p = &pool[first.src];
    let off = consumed;
    let rest = p.len().saturating_sub(off);
    let mut inputs: Vec<(usize, usize, usize, u8)> = vec![(first.src, off, rest, 0), (first.src, off, rest.min(1), 0), (first.src, off, 0, 0)];
    inputs.push((usize::MAX, 0, 6, 0x00));
    inputs.push((usize::MAX, 0, 20, 0xff));
    inputs.push((usize::MAX, 0, 20, 0x55));
    let lens: &[usize] = if full_geo { &OUT_LENS } else { &[0, 3, 8, 20, 33, 1024, 32768] };
    for (ii, &(src, off, n, gar)) in inputs.iter().enumerate() {
        for &f in flag_menu {
            for &ol in lens {
                let mut poss = vec![0usize, 1, ol / 2, ol.saturating_sub(1), ol, ol + 1];
                poss.sort();
                poss.dedup();
                for op in poss {
                    for b in [usize::MAX, 1, 0] {
                        // unusable geometry is rejected before input or budget are looked at:
                        // one representative per (flags, len, pos)
                        if !geometry_ok(f, ol, op) && (ii != 0 || b != usize::MAX) {
                            continue;
                        }
                        v.push(Call { src, off, n, gar, flags: f, out_len: ol, out_pos: op, budget: b });
                    }
                }
            }
        }
    }
    v
}

pub fn run(tier: &str) -> i32 {
    let rep = Report::new("C05", tier, "model_checking");
    let th = rep.thorough();
    let pool = pool();
    let ctx = Ctx { pool: &pool, rep: &rep, gar: vec![vec![0x00; 64], vec![0xff; 64], vec![0x55; 64]] };
    let all_flags: Vec<u32> = (0..128u32).map(|m| {
        // bits {1,2,4,8,16,32,64}
        m
    }).collect();
    let all_flags: Vec<u32> = if cfg!(feature = "bb") { all_flags.iter().flat_map(|&f| [f, f | 128]).collect() } else { all_flags };
    let reduced_flags: Vec<u32> = vec![0, F_FLAT, F_ZLIB, F_ZLIB | F_FLAT, F_MORE, F_MORE | F_FLAT, F_IGN | F_ZLIB | F_FLAT, F_ADLER];
    let mut firsts = first_calls(&pool, th);
    // quick: the plain-release pass (no debug assertions / overflow checks) re-runs every other
    // first call of the checked pass
    if !th && std::env::var("MC_PART").map(|p| p == "fast").unwrap_or(false) {
        firsts = firsts.into_iter().step_by(2).collect();
    }
    let accs = par_for(firsts.len(), Acc::default, |i, acc| {
        watchdog::tick(i as u64, 0);
        let c1 = firsts[i];
        let mut out = vec![0u8; 40001];
        let mut r1 = DecompressorOxide::new();
        let Some((st1, cons1)) = ctx.call(&mut r1, &c1, &mut out, &[], acc, false, false) else { return };
        if HOOKS {
            acc.states.insert(fp(&r1));
        }
        let failed1 = st1 == TINFLStatus::Failed;
        let adler1 = st1 == TINFLStatus::Adler32Mismatch;
        // depth 2: full flag x geometry product
        let seconds = second_calls(&c1, cons1, &pool, &all_flags, true);
        for (j, c2) in seconds.iter().enumerate() {
            if j % 4096 == 0 {
                watchdog::pulse();
            }
            let mut r2 = r1.clone();
            let h = [c1];
            let res = ctx.call(&mut r2, c2, &mut out, &h, acc, failed1, adler1);
            acc.histories += 1;
            if HOOKS && j % 64 == 0 {
                acc.states.insert(fp(&r2));
            }
            // depth 3 on a reduced product below every 3989th (quick) / 499th (thorough) second call
            if let Some((st2, cons2)) = res {
                if j % (if th { 499 } else { 3989 }) == 0 && geometry_ok(c2.flags, c2.out_len, c2.out_pos) {
                    let failed2 = failed1 || st2 == TINFLStatus::Failed;
                    let adler2 = st2 == TINFLStatus::Adler32Mismatch;
                    let base = if c2.src == usize::MAX { c1 } else { *c2 };
                    let off = if c2.src == usize::MAX { cons1 } else { c2.off + cons2 };
                    let thirds = second_calls(&Call { off: 0, ..base }, off, &pool, &reduced_flags, false);
                    for c3 in thirds.iter() {
                        let mut r3 = r2.clone();
                        let h = [c1, *c2];
                        ctx.call(&mut r3, c3, &mut out, &h, acc, failed2, adler2);
                        acc.histories += 1;
                    }
                }
            }
        }
    });
    // ---- part A0: one whole-input call per stream of the "literal run, then a tiny stored block"
    // family (the stored block's header and payload are served out of the bit buffer; every fill
    // level of the bit buffer at the end-of-block code), each flag set and geometry of a small menu
    let core_n = pool.len() - family().len();
    let fam: Vec<usize> = (core_n..pool.len()).collect();
    let accs_a0 = par_for(fam.len(), Acc::default, |i, acc| {
        watchdog::tick(8_000_000 + i as u64, 0);
        let b = &pool[fam[i]];
        let z = b[0] & 0x0f == 8 && b.len() > 1 && ((b[0] as u32) << 8 | b[1] as u32) % 31 == 0;
        let zf = if z { F_ZLIB } else { 0 };
        let mut out = vec![0u8; 40001];
        for &(f, ol, op) in &[(F_FLAT | zf, 40000usize, 0usize), (F_FLAT | F_MORE | zf, 300, 0), (zf, 32768, 0), (F_MORE | zf, 32768, 32000), (F_FLAT | zf, 600, 300)] {
            let c1 = Call { src: fam[i], off: 0, n: b.len(), gar: 0, flags: f, out_len: ol, out_pos: op, budget: usize::MAX };
            let mut r1 = DecompressorOxide::new();
            ctx.call(&mut r1, &c1, &mut out, &[], acc, false, false);
            acc.histories += 1;
        }
    });
    // ---- part A2: EVERY cut of the first 96 bytes of every pool stream as the first call (so every
    // suspended state x every number of bits left pending in the bit buffer is a start state), then
    // the reduced second-call product (which contains "no input, no room", "one byte", "the rest")
    let mut cut_firsts: Vec<Call> = vec![];
    for (pi, p) in pool.iter().enumerate().take(core_n) {
        for k in 1..=p.len().min(96) {
            for &(f, ol, op) in &[(F_MORE, 32768usize, 0usize), (F_MORE | F_FLAT, 40000, 0), (F_MORE | F_ZLIB | F_FLAT, 40000, 7)] {
                if !th && (pi + k) % 2 != 0 && f != F_MORE | F_FLAT {
                    continue;
                }
                cut_firsts.push(Call { src: pi, off: 0, n: k, gar: 0, flags: f, out_len: ol, out_pos: op, budget: usize::MAX });
            }
        }
    }
    if !th && std::env::var("MC_PART").map(|p| p == "fast").unwrap_or(false) {
        cut_firsts = cut_firsts.into_iter().step_by(2).collect();
    }
    let accs_a2 = par_for(cut_firsts.len(), Acc::default, |i, acc| {
        watchdog::tick(7_000_000 + i as u64, 0);
        let c1 = cut_firsts[i];
        let mut out = vec![0u8; 40001];
        let mut r1 = DecompressorOxide::new();
        let Some((st1, cons1)) = ctx.call(&mut r1, &c1, &mut out, &[], acc, false, false) else { return };
        if HOOKS {
            acc.states.insert(fp(&r1));
        }
        let failed1 = st1 == TINFLStatus::Failed;
        let adler1 = st1 == TINFLStatus::Adler32Mismatch;
        let seconds = second_calls(&c1, cons1, &pool, &reduced_flags, false);
        for c2 in seconds.iter() {
            let mut r2 = r1.clone();
            let h = [c1];
            ctx.call(&mut r2, c2, &mut out, &h, acc, failed1, adler1);
            acc.histories += 1;
        }
    });
    // ---- part B: inflate() wrapper with arbitrary (input, room, flush) two-call histories -----
    let mut inputs: Vec<Vec<u8>> = vec![];
    for a in 0..=255u8 {
        inputs.push(vec![a]);
    }
    for a in (0..=255u8).step_by(if th { 1 } else { 5 }) {
        for b in (0..=255u8).step_by(if th { 1 } else { 3 }) {
            inputs.push(vec![a, b]);
        }
    }
    for p in pool.iter() {
        inputs.push(p.clone());
    }
    let flushes = [MZFlush::None, MZFlush::Sync, MZFlush::Finish, MZFlush::Full, MZFlush::Partial, MZFlush::Block];
    let infl = par_for(inputs.len(), || 0u64, |i, n| {
        watchdog::tick(2_000_000 + i as u64, 0);
        let d = &inputs[i];
        for fmt in [DataFormat::Raw, DataFormat::Zlib, DataFormat::ZLibIgnoreChecksum] {
            for f1 in flushes {
                for room1 in [0usize, 1, 40] {
                    for cut in [0usize, 1, d.len()] {
                        let cut = cut.min(d.len());
                        for f2 in flushes {
                            for room2 in [0usize, 3, 300] {
                                *n += 1;
                                let r = guarded(|| {
                                    let mut st = InflateState::new_boxed(fmt);
                                    let mut o1 = vec![0u8; room1];
                                    let r1 = inflate(&mut st, &d[..cut], &mut o1, f1);
                                    if r1.bytes_consumed > cut || r1.bytes_written > room1 {
                                        return Err(format!("first call counts {}/{} {}/{}", r1.bytes_consumed, cut, r1.bytes_written, room1));
                                    }
                                    let mut o2 = vec![0u8; room2];
                                    let rest = &d[r1.bytes_consumed..];
                                    let r2 = inflate(&mut st, rest, &mut o2, f2);
                                    if r2.bytes_consumed > rest.len() || r2.bytes_written > room2 {
                                        return Err(format!("second call counts {}/{} {}/{}", r2.bytes_consumed, rest.len(), r2.bytes_written, room2));
                                    }
                                    // once failed, keeps failing: a data error, and a failed first-call
                                    // Finish (documented to "end up with a failure regardless"), are final
                                    let c1 = mzres_code(&r1.status);
                                    let c2 = mzres_code(&r2.status);
                                    let first_finish_failed = f1 == MZFlush::Finish && c1 == -5;
                                    if (c1 == -3 || first_finish_failed) && c2 >= 0 {
                                        return Err(format!("STICKY first call answered {} (flush {}), the next call answered {} and wrote {} bytes", c1, f1 as i32, c2, r2.bytes_written));
                                    }
                                    Ok(())
                                });
                                let rp = json!({"inflate_input_hex": hex(d), "fmt": fmt_name(fmt), "f1": f1 as i32, "room1": room1, "cut": cut, "f2": f2 as i32, "room2": room2});
                                match r {
                                    Ok(Ok(())) => {}
                                    Ok(Err(e)) => rep.violation(if e.starts_with("STICKY") { "C05/inflate-wrapper/failure-not-sticky" } else { "C05/inflate-wrapper/counts" }, e, rp),
                                    Err(p) => rep.violation("C05/inflate-wrapper/panic", format!("inflate() panicked: {}", p), rp),
                                }
                            }
                        }
                    }
                }
            }
        }
    });
    // ---- part C: vector functions on invalid / arbitrary inputs ------------------------------
    let mut vec_evals = 0u64;
    for d in inputs.iter() {
        vec_evals += 3;
        for k in 0..3 {
            let r = guarded(|| match k {
                0 => decompress_to_vec(d).map(|_| ()).map_err(|_| ()),
                1 => decompress_to_vec_zlib(d).map(|_| ()).map_err(|_| ()),
                _ => decompress_to_vec_zlib_with_limit(d, 10).map(|_| ()).map_err(|_| ()),
            });
            if let Err(p) = r {
                rep.violation("C05/to_vec/panic", format!("decompress_to_vec variant {} panicked: {}", k, p), json!({"vec_input_hex": hex(d), "variant": k}));
            }
        }
    }
    let mut calls = 0;
    let mut hist = 0;
    let mut states = std::collections::HashSet::new();
    let mut statuses = BTreeSet::new();
    let mut fails = BTreeSet::new();
    let (mut badparam, mut sticky) = (0, 0);
    for a in accs.into_iter().chain(accs_a2).chain(accs_a0) {
        calls += a.calls;
        hist += a.histories;
        states.extend(a.states);
        statuses.extend(a.statuses);
        fails.extend(a.fail_states);
        badparam += a.badparam;
        sticky += a.sticky_checked;
    }
    let infl_n: u64 = infl.iter().sum();
    rep.set("states", json!(states.len().max(1)));
    rep.set("transitions", json!(calls + 2 * infl_n));
    rep.set("traces_validated_against_impl", json!(hist + infl_n + vec_evals));
    rep.set("histories_low_level", json!(hist));
    rep.set("histories_inflate_wrapper", json!(infl_n));
    rep.set("vector_function_evaluations", json!(vec_evals));
    rep.set("first_calls", json!(firsts.len()));
    rep.set("first_calls_every_cut", json!(cut_firsts.len()));
    rep.set("flag_sets", json!(all_flags.len()));
    rep.set("bad_geometry_calls", json!(badparam));
    rep.set("sticky_failure_checks", json!(sticky));
    rep.set("statuses_seen", json!(statuses.iter().map(|s| status_name(TINFLStatus::from_i32(*s as i32).unwrap())).collect::<Vec<_>>()));
    rep.set("failure_states_after_error", json!(fails));
    rep.set("depth_completed", json!({"full_product": 2, "reduced_product": 3}));
    rep.set("pool_streams", json!(pool.len()));
    rep.set("explanation", json!("every history = first call (pool stream prefix x 8 flag sets x 8 geometries) then the FULL product of 128 flag sets x 14 slice lengths x up to 6 positions x 3 budgets x 6 input choices on a clone of the real decoder, then a reduced third call; states sampled every 64th second call (distinct complete-state fingerprints); output buffer contents are never branched on by the decoder, so a shared scratch buffer is used"));
    rep.sample(json!({"history": [firsts[firsts.len() / 2].to_json(), second_calls(&firsts[0], 1, &pool, &all_flags, true)[12345].to_json()]}));
    rep.assume("a call that does not return within 20 s is a hang (longest legitimate call is far below 1 s)");
    if calls < 100_000 || badparam == 0 || sticky == 0 {
        println!("MACHINERY vacuous: calls={} badparam={} sticky={}", calls, badparam, sticky);
        rep.finish();
        return 2;
    }
    let _ = ref_inflate(&[], &Opts::raw());
    rep.finish()
}

pub fn replay(v: &Value) -> Option<String> {
    let pool = pool();
    if let Some(h) = v.get("history").and_then(|h| h.as_array()) {
        let rep = Report::new("C05", "quick", "model_checking");
        let ctx = Ctx { pool: &pool, rep: &rep, gar: vec![vec![0x00; 64], vec![0xff; 64], vec![0x55; 64]] };
        let mut r = DecompressorOxide::new();
        let mut out = vec![0u8; 40001];
        let mut acc = Acc::default();
        let mut hist: Vec<Call> = vec![];
        let (mut failed, mut adler) = (false, false);
        for cj in h {
            let c = Call::from_json(cj);
            match ctx.call(&mut r, &c, &mut out, &hist, &mut acc, failed, adler) {
                None => return Some(format!("violation at call {} of the history", hist.len() + 1)),
                Some((st, _)) => {
                    failed |= st == TINFLStatus::Failed;
                    adler = st == TINFLStatus::Adler32Mismatch;
                }
            }
            hist.push(c);
        }
        return None;
    }
    if let Some(hx) = v.get("vec_input_hex").and_then(|x| x.as_str()) {
        let d = unhex(hx);
        return guarded(|| {
            let _ = decompress_to_vec(&d);
            let _ = decompress_to_vec_zlib(&d);
            let _ = decompress_to_vec_zlib_with_limit(&d, 10);
        })
        .err()
        .map(|p| format!("panic {}", p));
    }
    if let Some(hx) = v.get("inflate_input_hex").and_then(|x| x.as_str()) {
        let d = unhex(hx);
        let fmt = match v["fmt"].as_str()? {
            "Raw" => DataFormat::Raw,
            "Zlib" => DataFormat::Zlib,
            _ => DataFormat::ZLibIgnoreChecksum,
        };
        let f1 = MZFlush::new(v["f1"].as_i64()? as i32).ok()?;
        let f2 = MZFlush::new(v["f2"].as_i64()? as i32).ok()?;
        let (room1, room2, cut) = (v["room1"].as_u64()? as usize, v["room2"].as_u64()? as usize, v["cut"].as_u64()? as usize);
        return guarded(|| {
            let mut st = InflateState::new_boxed(fmt);
            let mut o1 = vec![0u8; room1];
            let r1 = inflate(&mut st, &d[..cut], &mut o1, f1);
            let mut o2 = vec![0u8; room2];
            let r2 = inflate(&mut st, &d[r1.bytes_consumed.min(d.len())..], &mut o2, f2);
            r1.bytes_consumed > cut || r1.bytes_written > room1 || r2.bytes_written > room2
        })
        .map(|bad| if bad { Some("counts out of range".to_string()) } else { None })
        .unwrap_or_else(|p| Some(format!("panic {}", p)));
    }
    None
}
