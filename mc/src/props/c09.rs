//! C09: zlib framing produced correctly and verified on decode.
use crate::corpus;
use crate::drv::*;
use crate::evidence::Report;
use crate::gen::{GenStream, StreamBuilder};
use crate::props::c01::{canonical_cfgs_ext, Cfg};
use crate::refmodel::*;
use crate::util::{hex, par_for, unhex};
use crate::{guarded, streams, watchdog};
use miniz_oxide::deflate::core::{compress, TDEFLFlush, TDEFLStatus};
use miniz_oxide::inflate::TINFLStatus;
use miniz_oxide::{DataFormat, MZFlush};
use serde_json::{json, Value};

pub const FLUSHES: [TDEFLFlush; 8] = [
    TDEFLFlush::None,
    TDEFLFlush::Sync,
    TDEFLFlush::Full,
    TDEFLFlush::Finish,
    TDEFLFlush::Partial,
    TDEFLFlush::NoSync,
    TDEFLFlush::SyncOpt,
    TDEFLFlush::PartialOpt,
];

/// Producer: first call = `first` flush with empty input (None = skip), then Finish with everything.
pub fn produce(cfg: &Cfg, input: &[u8], first: Option<TDEFLFlush>) -> Result<Vec<u8>, String> {
    let mut c = cfg.make();
    let mut out = vec![0u8; input.len() + input.len() / 4 + 512];
    let mut op = 0;
    let mut finish_started = false;
    if let Some(f) = first {
        let (st, ni, no) = compress(&mut c, &[], &mut out[op..], f);
        if ni != 0 || no > out.len() - op {
            return Err(format!("first call counts: consumed {} wrote {}", ni, no));
        }
        op += no;
        match st {
            TDEFLStatus::Okay => {}
            TDEFLStatus::Done if f == TDEFLFlush::Finish => finish_started = true,
            other => return Err(format!("first call ({:?}) returned {}", f as i32, other as i32)),
        }
        if f == TDEFLFlush::Finish {
            finish_started = true;
        }
    }
    if finish_started {
        // Finish with empty input declared the end: the stream encodes the empty string
        out.truncate(op);
        return Ok(out);
    }
    let mut ip = 0;
    let mut calls = 0;
    loop {
        let (st, ni, no) = compress(&mut c, &input[ip..], &mut out[op..], TDEFLFlush::Finish);
        if ni > input.len() - ip || no > out.len() - op {
            return Err("counts out of range".into());
        }
        ip += ni;
        op += no;
        calls += 1;
        match st {
            TDEFLStatus::Done => break,
            TDEFLStatus::Okay => {
                if out.len() - op < 64 {
                    let l = out.len();
                    out.resize(l * 2, 0);
                }
                if calls > 10000 {
                    return Err("no Done".into());
                }
            }
            other => return Err(format!("compress returned {}", other as i32)),
        }
    }
    out.truncate(op);
    Ok(out)
}

fn check_produced(cfg: &Cfg, input: &[u8], first: Option<TDEFLFlush>) -> Result<(), (String, String)> {
    let expect_plain: &[u8] = if first == Some(TDEFLFlush::Finish) { &[] } else { input };
    let s = match guarded(|| produce(cfg, input, first)) {
        Ok(Ok(s)) => s,
        Ok(Err(e)) => return Err(("producer-error".into(), e)),
        Err(p) => return Err(("panic".into(), p)),
    };
    if s.len() < 6 {
        return Err(("too-short".into(), format!("zlib stream of {} bytes", s.len())));
    }
    let (cmf, flg) = (s[0], s[1]);
    if cmf & 15 != 8 {
        return Err(("header-cm".into(), format!("CM = {}", cmf & 15)));
    }
    if cmf >> 4 > 7 {
        return Err(("header-cinfo".into(), format!("CINFO = {}", cmf >> 4)));
    }
    if flg & 0x20 != 0 {
        return Err(("header-fdict".into(), "FDICT set".into()));
    }
    if (cmf as u32 * 256 + flg as u32) % 31 != 0 {
        return Err(("header-fcheck".into(), format!("header {:02x}{:02x} is not a multiple of 31", cmf, flg)));
    }
    let tr = u32::from_be_bytes([s[s.len() - 4], s[s.len() - 3], s[s.len() - 2], s[s.len() - 1]]);
    let want = adler32_def(1, expect_plain);
    if tr != want {
        return Err(("trailer".into(), format!("trailer {:08x}, Adler-32 of the input is {:08x}", tr, want)));
    }
    let mut o = Opts::zlib();
    o.strict_producer = true;
    o.keep_tokens = false;
    let t = ref_inflate(&s, &o);
    if !t.is_complete() || t.out != expect_plain || t.consumed != s.len() {
        return Err(("stream-structure".into(), format!("reference decoder: {:?}, {} bytes out, consumed {}/{} (header must appear exactly once)", t.verdict, t.out.len(), t.consumed, s.len())));
    }
    Ok(())
}

/// Decode a zlib stream through the given schedule; returns the final low-level status.
fn dec_status(data: &[u8], flags: u32, mode: Mode, blen: usize, cuts: &[usize]) -> DecResult {
    run_cuts(data, mode, blen, flags, cuts, false, 0)
}

pub fn run(tier: &str) -> i32 {
    let rep = Report::new("C09", tier, "exploration");
    let th = rep.thorough();
    let mut evals = 0u64;
    let mut nontrivial = 0u64;
    // ---- producer ----------------------------------------------------------------------------
    let (cfgs, _) = canonical_cfgs_ext(&[8, 9, 11, 12, 14, 15, 1, 255, 0, 16, 17, 20, 23, 24, 127, 128], true, false);
    let zcfgs: Vec<Cfg> = cfgs.into_iter().filter(|c| c.zlib).collect();
    let mut inputs = corpus::small_inputs(if th { 9 } else { 7 }, 4, 5);
    inputs.extend(corpus::medium_inputs());
    for spec in corpus::shape_specs(&[1, 258, 4097, 32769, 65537, 98309], &[], &[], 0).into_iter().step_by(if th { 1 } else { 4 }) {
        inputs.push(corpus::shape_input(&spec));
    }
    let pe = par_for(inputs.len(), || (0u64, 0u64), |i, acc| {
        watchdog::tick(i as u64, 0);
        let inp = &inputs[i];
        for cfg in &zcfgs {
            if inp.data.len() > 1000 && !(cfg.strat == 0 || cfg.level == 6) {
                continue;
            }
            let firsts: Vec<Option<TDEFLFlush>> = if inp.data.len() <= 1000 { std::iter::once(None).chain(FLUSHES.iter().map(|f| Some(*f))).collect() } else { vec![None, Some(TDEFLFlush::Sync), Some(TDEFLFlush::Full)] };
            for first in firsts {
                watchdog::pulse();
                acc.0 += 1;
                if first.is_some() {
                    acc.1 += 1;
                }
                if let Err((site, what)) = check_produced(cfg, &inp.data, first) {
                    rep.violation(
                        &format!("C09/producer/{}", site),
                        format!("{} :: {} on {} (first call {:?})", what, cfg.name(), inp.name, first.map(|f| f as i32)),
                        json!({"kind": "producer", "input_hex": hex(&inp.data), "cfg": cfg.to_json(), "first": first.map(|f| f as i32)}),
                    );
                }
            }
        }
    });
    evals += pe.iter().map(|x| x.0).sum::<u64>();
    nontrivial += pe.iter().map(|x| x.1).sum::<u64>();
    // ---- decoder: all 65536 headers ------------------------------------------------------------
    let body = {
        let mut b = StreamBuilder::new(None);
        b.fixed(&[Token::Lit(b'a')], true);
        b.finish()
    };
    let tr = adler32_def(1, &body.plain).to_be_bytes();
    let he = par_for(256, || (0u64, 0u64), |cmf, acc| {
        watchdog::tick(cmf as u64, 1);
        for flg in 0..=255u32 {
            let cmf = cmf as u32;
            let mut d = vec![cmf as u8, flg as u8];
            d.extend_from_slice(&body.bytes);
            d.extend_from_slice(&tr);
            let valid = cmf & 15 == 8 && cmf >> 4 <= 7 && flg & 0x20 == 0 && (cmf * 256 + flg) % 31 == 0;
            let window = if cmf >> 4 <= 7 { 1usize << ((cmf >> 4) + 8) } else { usize::MAX };
            let mut geos: Vec<(Mode, usize)> = vec![(Mode::Flat, 16)];
            for k in 0..=16 {
                geos.push((Mode::Ring, 1usize << k));
            }
            for (mode, blen) in geos {
                for cuts in [vec![], vec![1], vec![2], (1..d.len()).collect::<Vec<_>>()] {
                    acc.0 += 1;
                    if valid {
                        acc.1 += 1;
                    }
                    let r = guarded(|| dec_status(&d, F_ZLIB, mode, blen, &cuts));
                    let rp = json!({"kind": "header", "cmf": cmf, "flg": flg, "mode": format!("{:?}", mode), "buflen": blen, "cuts": cuts});
                    match r {
                        Err(p) => rep.violation("C09/header/panic", format!("panic {} on header {:02x}{:02x}", p, cmf, flg), rp),
                        Ok(r) => {
                            let done = r.status == TINFLStatus::Done;
                            if done && r.out != body.plain {
                                rep.violation("C09/header/wrong-output", format!("header {:02x}{:02x}: Done with wrong output", cmf, flg), rp);
                            } else if !valid && done {
                                rep.violation(
                                    &format!("C09/header/invalid-accepted/{}", if mode == Mode::Flat { "flat" } else { "ring" }),
                                    format!("RFC-1950-invalid header {:02x}{:02x} accepted ({:?} buf {})", cmf, flg, mode, blen),
                                    rp,
                                );
                            } else if valid && !done && (mode == Mode::Flat || blen >= window) {
                                rep.violation(
                                    "C09/header/valid-rejected",
                                    format!("valid header {:02x}{:02x} rejected with {} ({:?} buf {}, declared window {})", cmf, flg, status_name(r.status), mode, blen, window),
                                    rp,
                                );
                            }
                        }
                    }
                }
            }
        }
    });
    evals += he.iter().map(|x| x.0).sum::<u64>();
    nontrivial += he.iter().map(|x| x.1).sum::<u64>();
    // ---- decoder: trailers -----------------------------------------------------------------------
    let mut zs: Vec<GenStream> = vec![];
    zs.extend(corpus::compact_corpus(true).into_iter().filter(|s| s.zlib).step_by(if th { 6 } else { 14 }));
    zs.extend(corpus::produced_corpus().into_iter().filter(|s| s.zlib).step_by(if th { 3 } else { 8 }));
    zs.extend(streams::stored_edges(Some((7, 2))).into_iter().rev().take(1)); // output >> ring: adler across wraps
    zs.push({
        let mut b = StreamBuilder::new(Some((7, 1)));
        b.stored(b"", true);
        b.finish()
    });
    let te = par_for(zs.len(), || (0u64, 0u64), |i, acc| {
        watchdog::tick(i as u64, 2);
        let s = &zs[i];
        let n = s.bytes.len();
        let big = n > 3000;
        // corrupted trailers: all single-bit flips, all single-byte substitutions
        let mut variants: Vec<(Vec<u8>, bool, usize)> = vec![(s.bytes.clone(), true, s.plain.len())];
        for bit in 0..32 {
            let mut d = s.bytes.clone();
            d[n - 4 + bit / 8] ^= 1 << (bit % 8);
            variants.push((d, false, s.plain.len()));
        }
        if !big {
            for pos in 0..4 {
                for v in 0..=255u8 {
                    if v != s.bytes[n - 4 + pos] {
                        let mut d = s.bytes.clone();
                        d[n - 4 + pos] = v;
                        variants.push((d, false, s.plain.len()));
                    }
                }
            }
            // body bit flips the reference still parses to a different plaintext
            for bit in 16..(n - 4) * 8 {
                let mut d = s.bytes.clone();
                d[bit / 8] ^= 1 << (bit % 8);
                let mut o = Opts::zlib();
                o.check_adler = false;
                o.keep_tokens = false;
                let t = ref_inflate(&d, &o);
                if t.is_complete() && t.consumed == n && t.out != s.plain && adler32_def(1, &t.out) != t.adler_stored.unwrap() {
                    variants.push((d, false, t.out.len()));
                }
            }
        }
        // the same with unrelated bytes following the stream (container formats, concatenated streams):
        // the verdict is about the 4 bytes after the last block, whatever comes after them. Tails: a
        // copy of the correct Adler-32, zeros, the stream itself; on the unmodified stream, on every
        // single-bit trailer flip, and on the *shifted* trailers junk(k) ++ adler (k = 1..3), where
        // the correct value sits k bytes too late.
        let adler_ok = s.bytes[n - 4..].to_vec();
        let base: Vec<(Vec<u8>, bool, usize)> = variants.iter().take(33).cloned().collect();
        let mut tails: Vec<Vec<u8>> = vec![adler_ok.clone(), vec![0u8; 8]];
        if !big {
            tails.push(s.bytes.clone());
        }
        for tail in &tails {
            for (d, good, olen) in &base {
                let mut t = d.clone();
                t.extend_from_slice(tail);
                variants.push((t, *good, *olen));
            }
        }
        for k in 1..=3usize {
            for junk in [0x00u8, 0xff, adler_ok[0], adler_ok[3]] {
                let mut t = s.bytes[..n - 4].to_vec();
                t.extend(std::iter::repeat(junk).take(k));
                t.extend_from_slice(&adler_ok);
                t.extend_from_slice(&[0x55; 4]);
                let good = t[n - 4..n] == adler_ok[..];
                variants.push((t, good, s.plain.len()));
            }
        }
        for (d, good, olen) in &variants {
            watchdog::pulse();
            let mut scheds: Vec<Vec<usize>> = vec![vec![]];
            for c in n - 5..n {
                scheds.push(vec![c]);
            }
            if d.len() > n {
                scheds.push(vec![n]);
                scheds.push(vec![n + 1]);
                for c in n - 3..n {
                    scheds.push(vec![c, n]);
                    scheds.push(vec![c, c + 1]);
                }
            }
            if !big {
                scheds.push((1..d.len()).collect());
            }
            let blen_flat = *olen + 64;
            for cuts in &scheds {
                for (mode, blen) in [(Mode::Flat, blen_flat), (Mode::Ring, 32768)] {
                    acc.0 += 2;
                    if !*good {
                        acc.1 += 1;
                    }
                    let rp = json!({"kind": "trailer", "stream_hex": if d.len() < 3000 { json!(hex(d)) } else { Value::Null }, "desc": s.desc, "good": good, "mode": format!("{:?}", mode), "buflen": blen, "cuts": if cuts.len() < 8 { json!(cuts) } else { json!("bytewise") }});
                    let r = guarded(|| (dec_status(d, F_ZLIB, mode, blen, cuts), dec_status(d, F_ZLIB | F_IGN, mode, blen, cuts)));
                    match r {
                        Err(p) => rep.violation("C09/trailer/panic", format!("panic {}", p), rp),
                        Ok((r, ri)) => {
                            if *good {
                                if r.status != TINFLStatus::Done || r.out != s.plain {
                                    rep.violation("C09/trailer/correct-rejected", format!("correct trailer answered {} [{}]", status_name(r.status), s.desc), rp.clone());
                                }
                            } else if r.status != TINFLStatus::Adler32Mismatch {
                                rep.violation(
                                    &format!("C09/trailer/wrong-trailer-not-mismatch/{}", status_name(r.status)),
                                    format!("corrupted stream answered {} instead of Adler32Mismatch [{}] cuts {:?}", status_name(r.status), s.desc, if cuts.len() < 8 { cuts.clone() } else { vec![] }),
                                    rp.clone(),
                                );
                            }
                            if ri.status != TINFLStatus::Done {
                                rep.violation("C09/trailer/ignore-flag", format!("with TINFL_FLAG_IGNORE_ADLER32: {} [{}]", status_name(ri.status), s.desc), rp);
                            }
                        }
                    }
                }
            }
            // the slice-iterator helper, one slice and several (the trailer is checked whichever slice it arrives in)
            if !big {
                let mut outb = vec![0u8; *olen + 1];
                for k in [usize::MAX, 1, 3, n / 2 + 1, n.saturating_sub(2).max(1)] {
                    acc.0 += 2;
                    let k = k.min(d.len());
                    let r = guarded(|| {
                        let a = miniz_oxide::inflate::decompress_slice_iter_to_slice(&mut outb, d.chunks(k), true, false);
                        let b = miniz_oxide::inflate::decompress_slice_iter_to_slice(&mut outb, d.chunks(k), true, true);
                        (a, b)
                    });
                    let rp = json!({"kind": "trailer-slice-iter", "stream_hex": hex(d), "desc": s.desc, "good": good, "slice": k, "olen": olen});
                    match r {
                        Err(p) => rep.violation("C09/trailer/panic", format!("panic {}", p), rp),
                        Ok((a, b)) => {
                            if *good {
                                if a != Ok(s.plain.len()) {
                                    rep.violation("C09/slice-iter/correct-rejected", format!("decompress_slice_iter_to_slice({}-byte slices) on a correct stream: {:?} [{}]", k, a.map_err(status_name), s.desc), rp.clone());
                                }
                            } else if a != Err(TINFLStatus::Adler32Mismatch) {
                                rep.violation("C09/slice-iter/wrong-trailer-not-mismatch", format!("decompress_slice_iter_to_slice({}-byte slices) on a corrupted stream: {:?} instead of Adler32Mismatch [{}]", k, a.map_err(status_name), s.desc), rp.clone());
                            }
                            if b.is_err() {
                                rep.violation("C09/slice-iter/ignore-flag", format!("decompress_slice_iter_to_slice with ignore_adler32: {:?} [{}]", b.map_err(status_name), s.desc), rp);
                            }
                        }
                    }
                }
            }
            // the decoder saved and restored (serde) with 1-3 trailer bytes already read: the verdict is
            // about all four bytes
            #[cfg(not(feature = "simd"))]
            if !big && d.len() == n {
                for cut in n - 3..n {
                    acc.0 += 1;
                    let r = guarded(|| {
                        use miniz_oxide::inflate::core::{decompress, DecompressorOxide};
                        let mut dec = Box::new(DecompressorOxide::new());
                        let mut out = vec![0u8; *olen + 64];
                        let (st1, c1, w1) = decompress(&mut dec, &d[..cut], &mut out, 0, F_ZLIB | F_FLAT | F_MORE);
                        let bytes = rmp_serde::to_vec(&*dec).map_err(|e| e.to_string())?;
                        let mut dec2: DecompressorOxide = rmp_serde::from_slice(&bytes).map_err(|e| e.to_string())?;
                        let (st2, _, _) = decompress(&mut dec2, &d[c1..], &mut out, w1, F_ZLIB | F_FLAT);
                        Ok::<_, String>((st1, st2))
                    });
                    let rp = json!({"kind": "trailer-serde", "stream_hex": hex(d), "desc": s.desc, "good": good, "cut": cut});
                    match r {
                        Err(p) => rep.violation("C09/trailer/panic", format!("panic {}", p), rp),
                        Ok(Err(e)) => rep.violation("C09/trailer/serde-error", e, rp),
                        Ok(Ok((_, st2))) => {
                            let want = if *good { TINFLStatus::Done } else { TINFLStatus::Adler32Mismatch };
                            if st2 != want {
                                rep.violation("C09/trailer/serde-restored-decoder", format!("decoder serialised and restored {} bytes before the end of the trailer answered {} instead of {} [{}]", n - cut, status_name(st2), status_name(want), s.desc), rp);
                            }
                        }
                    }
                }
            }
            // a Finish request made too early (part of the stream still to come), answered Buf, and
            // repeated with the rest: whatever the wrapper makes of the retry, it may not report a
            // checksum error for the correct trailer nor the end of the stream for a wrong one
            if !big && d.len() == n {
                for cut in [n / 2, n - 5, n - 2] {
                    if cut < 3 {
                        continue;
                    }
                    acc.0 += 1;
                    let r = guarded(|| {
                        let mut st = miniz_oxide::inflate::stream::InflateState::new_boxed(DataFormat::Zlib);
                        let mut buf = vec![0u8; *olen + 64];
                        let r1 = miniz_oxide::inflate::stream::inflate(&mut st, &d[..1], &mut buf, MZFlush::None);
                        let mut ip = r1.bytes_consumed;
                        let r2 = miniz_oxide::inflate::stream::inflate(&mut st, &d[ip..cut], &mut buf, MZFlush::Finish);
                        ip += r2.bytes_consumed;
                        let r3 = miniz_oxide::inflate::stream::inflate(&mut st, &d[ip..], &mut buf, MZFlush::Finish);
                        (mzres_code(&r2.status), mzres_code(&r3.status))
                    });
                    let rp = json!({"kind": "trailer-early-finish", "stream_hex": hex(d), "desc": s.desc, "good": good, "cut": cut});
                    match r {
                        Err(p) => rep.violation("C09/trailer/panic", format!("panic {}", p), rp),
                        Ok((c2, c3)) => {
                            if *good && (c2 == -3 || c3 == -3) {
                                rep.violation("C09/inflate/early-finish/correct-trailer-data-error", format!("inflate(): early Finish at {} answered {}, the retry {}: a checksum error for a correct trailer [{}]", cut, c2, c3, s.desc), rp);
                            } else if !*good && (c2 == 1 || c3 == 1) {
                                rep.violation("C09/inflate/early-finish/wrong-trailer-accepted", format!("inflate(): early Finish at {} answered {}, the retry {}: StreamEnd for a wrong trailer [{}]", cut, c2, c3, s.desc), rp);
                            }
                        }
                    }
                }
            }
            // streaming wrapper: MZError::Data / StreamEnd, and ZLibIgnoreChecksum
            for (chunk, room) in [(usize::MAX, usize::MAX), (1usize, 7usize)] {
                if big && chunk == 1 {
                    continue;
                }
                acc.0 += 2;
                let r = inflate_loop_const(d, DataFormat::Zlib, chunk, room.min(s.plain.len() + 64), MZFlush::None);
                let ri = inflate_loop_const(d, DataFormat::ZLibIgnoreChecksum, chunk, room.min(s.plain.len() + 64), MZFlush::None);
                let rp = json!({"kind": "trailer-inflate", "stream_hex": if d.len() < 3000 { json!(hex(d)) } else { Value::Null }, "desc": s.desc, "good": good, "chunk": if chunk == usize::MAX { -1 } else { chunk as i64 }});
                if *good && (r.code != 1 || r.out != s.plain) {
                    rep.violation("C09/inflate/correct-rejected", format!("inflate(): code {} on a correct stream [{}]", r.code, s.desc), rp.clone());
                }
                if !*good && r.code != -3 {
                    rep.violation("C09/inflate/wrong-trailer-not-data-error", format!("inflate(): code {} instead of Data on a corrupted stream [{}]", r.code, s.desc), rp.clone());
                }
                if ri.code != 1 {
                    rep.violation("C09/inflate/ignore-checksum", format!("inflate(ZLibIgnoreChecksum): code {} [{}]", ri.code, s.desc), rp);
                }
            }
        }
    });
    evals += te.iter().map(|x| x.0).sum::<u64>();
    nontrivial += te.iter().map(|x| x.1).sum::<u64>();
    rep.set("evaluations", json!(evals));
    rep.set("distinct_nontrivial", json!(nontrivial));
    rep.set("zlib_configurations", json!(zcfgs.len()));
    rep.set("producer_inputs", json!(inputs.len()));
    rep.set("headers", json!(65536));
    rep.set("trailer_streams", json!(zs.len()));
    rep.set("exhaustive", json!(true));
    rep.set("rule", json!("producer: every canonical zlib configuration x small/medium/shape inputs x {no first call, each of the 8 flush modes with empty input as first call}: header rules, trailer = Adler-32 by definition, one well-formed stream; decoder: all 65536 two-byte headers + valid body + correct trailer in flat mode and rings 2^0..2^16 under 4 chunkings; trailers: every single-bit flip and single-byte substitution of the trailer and every body bit flip that still parses to different data, under one call / every cut in the trailer / bytewise, flat and ring, low-level and inflate(), with and without the ignore flag; non-trivial = flush-first schedule, valid header, or corrupted stream"));
    rep.sample(json!({"header": "789c", "mode": "Ring", "buflen": 256, "expect": "may reject (ring smaller than declared window), never wrong output"}));
    rep.sample(json!({"producer": zcfgs[zcfgs.len() / 2].name(), "first_call": "Full flush, empty input"}));
    if evals < 100_000 {
        println!("MACHINERY vacuous: evals={}", evals);
        rep.finish();
        return 2;
    }
    rep.finish()
}

pub fn replay(v: &Value) -> Option<String> {
    match v["kind"].as_str()? {
        "producer" => {
            let cfg = Cfg::from_json(&v["cfg"]);
            let input = unhex(v["input_hex"].as_str()?);
            let first = v["first"].as_i64().and_then(|f| TDEFLFlush::new(f as i32).ok());
            check_produced(&cfg, &input, first).err().map(|e| e.1)
        }
        "header" => {
            let (cmf, flg) = (v["cmf"].as_u64()? as u32, v["flg"].as_u64()? as u32);
            let mut b = StreamBuilder::new(None);
            b.fixed(&[Token::Lit(b'a')], true);
            let body = b.finish();
            let mut d = vec![cmf as u8, flg as u8];
            d.extend_from_slice(&body.bytes);
            d.extend_from_slice(&adler32_def(1, &body.plain).to_be_bytes());
            let mode = if v["mode"].as_str()? == "Flat" { Mode::Flat } else { Mode::Ring };
            let cuts: Vec<usize> = v["cuts"].as_array()?.iter().filter_map(|x| x.as_u64().map(|y| y as usize)).collect();
            let blen = v["buflen"].as_u64()? as usize;
            let valid = cmf & 15 == 8 && cmf >> 4 <= 7 && flg & 0x20 == 0 && (cmf * 256 + flg) % 31 == 0;
            let window = if cmf >> 4 <= 7 { 1usize << ((cmf >> 4) + 8) } else { usize::MAX };
            match guarded(|| dec_status(&d, F_ZLIB, mode, blen, &cuts)) {
                Err(p) => Some(format!("panic {}", p)),
                Ok(r) => {
                    let done = r.status == TINFLStatus::Done;
                    if done && r.out != body.plain {
                        Some("wrong output".into())
                    } else if !valid && done {
                        Some("invalid header accepted".into())
                    } else if valid && !done && (mode == Mode::Flat || blen >= window) {
                        Some(format!("valid header rejected: {}", status_name(r.status)))
                    } else {
                        None
                    }
                }
            }
        }
        "trailer" => {
            let d = unhex(v["stream_hex"].as_str()?);
            let good = v["good"].as_bool()?;
            let mode = if v["mode"].as_str()? == "Flat" { Mode::Flat } else { Mode::Ring };
            let cuts: Vec<usize> = match v["cuts"].as_array() {
                Some(a) => a.iter().filter_map(|x| x.as_u64().map(|y| y as usize)).collect(),
                None => (1..d.len()).collect(),
            };
            let blen = v["buflen"].as_u64()? as usize;
            let r = dec_status(&d, F_ZLIB, mode, blen, &cuts);
            let ri = dec_status(&d, F_ZLIB | F_IGN, mode, blen, &cuts);
            if good && r.status != TINFLStatus::Done {
                return Some(format!("correct trailer: {}", status_name(r.status)));
            }
            if !good && r.status != TINFLStatus::Adler32Mismatch {
                return Some(format!("corrupted stream: {}", status_name(r.status)));
            }
            if ri.status != TINFLStatus::Done {
                return Some(format!("ignore flag: {}", status_name(ri.status)));
            }
            None
        }
        "trailer-slice-iter" => {
            let d = unhex(v["stream_hex"].as_str()?);
            let good = v["good"].as_bool()?;
            let k = v["slice"].as_u64()? as usize;
            let mut outb = vec![0u8; v["olen"].as_u64()? as usize + 1];
            let a = miniz_oxide::inflate::decompress_slice_iter_to_slice(&mut outb, d.chunks(k), true, false);
            if good == a.is_ok() && (good || a == Err(TINFLStatus::Adler32Mismatch)) { None } else { Some(format!("slice-iter: {:?}", a.map_err(status_name))) }
        }
        "trailer-inflate" => {
            let d = unhex(v["stream_hex"].as_str()?);
            let good = v["good"].as_bool()?;
            let chunk = v["chunk"].as_i64()?;
            let chunk = if chunk < 0 { usize::MAX } else { chunk as usize };
            let r = inflate_loop_const(&d, DataFormat::Zlib, chunk, 1 << 16, MZFlush::None);
            let ri = inflate_loop_const(&d, DataFormat::ZLibIgnoreChecksum, chunk, 1 << 16, MZFlush::None);
            if good && r.code != 1 {
                return Some(format!("correct stream: code {}", r.code));
            }
            if !good && r.code != -3 {
                return Some(format!("corrupted stream: code {}", r.code));
            }
            if ri.code != 1 {
                return Some(format!("ignore checksum: code {}", ri.code));
            }
            None
        }
        _ => None,
    }
}
