//! C02 (streaming compression lossless under every schedule and configuration) and C12 (flush
//! points make all input so far decodable; Full cuts history). One model on the real
//! `CompressorOxide`; each property reports the violations that belong to it. The running
//! Adler-32 of C16 is monitored at every call boundary as well.
use crate::evidence::Report;
use crate::explore::{DevSearch, Dfs, Model, Stats};
use crate::props::c01::Cfg;
use crate::refmodel::*;
use crate::util::{brief, hex, par_for, unhex, H128};
use crate::zlibffi::z_inflate;
use crate::{corpus, guarded, watchdog};
use miniz_oxide::deflate::core::{compress, compress_to_output, CompressorOxide, TDEFLFlush, TDEFLStatus};
use miniz_oxide::deflate::stream::deflate;
use miniz_oxide::MZFlush;
use serde_json::{json, Value};
use std::collections::BTreeMap;
use std::hash::Hasher;
use std::sync::Mutex;

pub const REST: u32 = u32::MAX;
pub const LARGE: u32 = 400_000;
pub const FL: [TDEFLFlush; 8] = [
    TDEFLFlush::None,
    TDEFLFlush::Sync,
    TDEFLFlush::Full,
    TDEFLFlush::Finish,
    TDEFLFlush::Partial,
    TDEFLFlush::NoSync,
    TDEFLFlush::SyncOpt,
    TDEFLFlush::PartialOpt,
];
const F_NONE: u8 = 0;
const F_SYNC: u8 = 1;
const F_FULL: u8 = 2;
const F_FINISH: u8 = 3;
const F_PARTIAL: u8 = 4;
/// pseudo flush value: the action is CompressorOxide::reset() - whatever stream was in progress is
/// dropped (its output is discarded) and the rest of the input becomes a new stream
const F_RESET: u8 = 100;
/// pseudo flush values: set_compression_level_raw(0) / (1) between two calls. Level changes after
/// the start are documented as risky in general; the exploration only makes them right after a
/// completed Sync/Full flush (nothing buffered, nothing pending) and only *down* to the two
/// match-free / one-probe levels.
const F_SETLEVEL0: u8 = 120;
const F_SETLEVEL1: u8 = 121;
/// capacity sentinel: this one call goes through compress_to_output (callback sink) although the
/// exploration's entry point is `compress` - the two public entry points mixed on one object
const CAP_CALLBACK: u32 = u32::MAX - 2;

#[derive(Clone, Copy, Debug, PartialEq, Eq)]
pub enum Entry {
    Compress,
    Callback,
    Deflate,
}

#[derive(Clone, Copy, Debug, PartialEq, Eq)]
pub struct Act {
    pub k: u32,
    pub cap: u32,
    pub flush: u8,
}

#[derive(Clone, Copy, Debug)]
pub struct FlushPoint {
    pub kind: u8,
    pub out_len: usize,
    pub in_len: usize,
}

#[derive(Clone)]
pub struct St {
    pub c: Box<CompressorOxide>,
    pub ip: usize,
    pub out: Vec<u8>,
    pub declared: Option<usize>,
    pub done: bool,
    pub bad: bool,
    pub idle: u8,
    pub calls: u32,
    /// the previous call left output room unused (nothing pending from before)
    pub prev_room_left: bool,
    pub full_points: Vec<FlushPoint>,
    /// Adler-32 (by definition) of input[base..ip], kept incrementally
    pub adler_ref: u32,
    /// input offset where the current stream started (moves at every reset())
    pub base: usize,
}

#[cfg(feature = "hooks")]
fn comp_fp(c: &CompressorOxide, h: &mut H128) {
    c.verif_hash(h);
}
#[cfg(not(feature = "hooks"))]
fn comp_fp(_c: &CompressorOxide, _h: &mut H128) {}

pub struct CompModel<'a> {
    pub prop: &'a str,
    pub input: &'a [u8],
    pub name: &'a str,
    pub cfg: Cfg,
    pub entry: Entry,
    pub rep: &'a Report,
    pub chunks: Vec<u32>,
    pub caps: Vec<u32>,
    pub flushes: Vec<u8>,
    pub cov: Mutex<BTreeMap<&'static str, u64>>,
    pub ffi_every: u32,
}

fn mz_of(f: u8) -> MZFlush {
    match f {
        F_SYNC => MZFlush::Sync,
        F_FULL => MZFlush::Full,
        F_FINISH => MZFlush::Finish,
        F_PARTIAL => MZFlush::Partial,
        _ => MZFlush::None,
    }
}

impl<'a> CompModel<'a> {
    pub fn init(&self) -> St {
        St { c: Box::new(self.cfg.make()), ip: 0, out: vec![], declared: None, done: false, bad: false, idle: 0, calls: 0, prev_room_left: true, full_points: vec![], adler_ref: 1, base: 0 }
    }
    fn rp(&self, path: &[Act]) -> Value {
        json!({"input_hex": if self.input.len() <= 4096 { json!(hex(self.input)) } else { Value::Null }, "input_name": self.name, "cfg": self.cfg.to_json(), "entry": format!("{:?}", self.entry),
               "schedule": compact_schedule(path)})
    }
    fn viol(&self, owner: &str, site: &str, what: String, path: &[Act]) {
        if owner == self.prop {
            let o = owner;
            self.rep.violation(&format!("{}/{}", o, site), format!("{} :: {} {:?} on {} after {} calls", what, self.cfg.name(), self.entry, self.name, path.len()), self.rp(path));
        }
    }
    fn count(&self, k: &'static str) {
        *self.cov.lock().unwrap().entry(k).or_insert(0) += 1;
    }

    /// Terminal oracle: one stream, decodes to the declared input; Full-flush history cuts.
    fn check_done(&self, s: &St, path: &[Act]) {
        let end = s.declared.unwrap_or(self.input.len());
        let want = &self.input[s.base..end];
        if s.ip != end {
            self.viol("C02", "done-input-left", format!("Done with {} of {} declared input bytes consumed", s.ip - s.base, end - s.base), path);
            return;
        }
        let mut o = Opts::fmt(self.cfg.zlib);
        o.strict_producer = true;
        o.keep_tokens = !s.full_points.is_empty();
        let t = ref_inflate(&s.out, &o);
        if !t.is_complete() || t.consumed != s.out.len() {
            self.viol("C02", "output-not-one-stream", format!("concatenated output ({} bytes) is not one valid stream: {:?} at bit {}, ends at byte {}", s.out.len(), t.verdict, t.bit_at_verdict, t.consumed), path);
            return;
        }
        if t.out != want {
            let p = t.out.iter().zip(want.iter()).position(|(a, b)| a != b).unwrap_or(t.out.len().min(want.len()));
            self.viol("C02", "output-decodes-differently", format!("output decodes to {} bytes, input is {} bytes, first difference at {}", t.out.len(), want.len(), p), path);
            return;
        }
        self.count("terminal_ref_decodes");
        if s.calls % self.ffi_every == 0 {
            let z = z_inflate(&s.out, if self.cfg.zlib { 15 } else { -15 }, 1 << 16, want.len() + 64);
            if !z.end || z.out != want || z.consumed != s.out.len() {
                self.viol("C02", "zlib-rejects", format!("system zlib: end={} code={} consumed {}/{}", z.end, z.code, z.consumed, s.out.len()), path);
                return;
            }
            let d = if self.cfg.zlib { miniz_oxide::inflate::decompress_to_vec_zlib(&s.out) } else { miniz_oxide::inflate::decompress_to_vec(&s.out) };
            if d.as_deref().ok() != Some(want) {
                self.viol("C02", "crate-decoder-rejects", "the crate's own decoder does not return the input".into(), path);
                return;
            }
        }
        // C12: after each Full flush no later match reaches before it; the remainder decodes alone
        for fp in &s.full_points {
            self.count("full_flush_points_checked");
            let mut pos = 0usize;
            for b in &t.blocks {
                pos = b.out_start;
                for tk in &b.tokens {
                    match *tk {
                        Token::Lit(_) => pos += 1,
                        Token::Match { len, dist } => {
                            if pos >= fp.in_len && pos - (dist as usize) < fp.in_len {
                                self.viol("C12", "full-flush-history-not-cut", format!("match(len {}, dist {}) at output offset {} reaches before the Full flush at input offset {}", len, dist, pos, fp.in_len), path);
                                return;
                            }
                            pos += len as usize;
                        }
                    }
                }
            }
            let _ = pos;
            if fp.out_len == usize::MAX {
                continue;
            }
            let tail_end = if self.cfg.zlib { s.out.len() - 4 } else { s.out.len() };
            let mut ro = Opts::raw();
            ro.keep_tokens = false;
            let tt = ref_inflate(&s.out[fp.out_len..tail_end], &ro);
            if !tt.is_complete() || tt.out != want[fp.in_len..] || tt.consumed != tail_end - fp.out_len {
                self.viol("C12", "full-flush-remainder-not-standalone", format!("bytes after the Full flush (output offset {}) do not decode on their own to the input from offset {}: {:?}", fp.out_len, fp.in_len, tt.verdict), path);
                return;
            }
        }
    }
}

pub fn compact_schedule(path: &[Act]) -> Value {
    // run-length encode identical consecutive actions
    let mut v: Vec<Value> = vec![];
    let mut i = 0;
    while i < path.len() {
        let mut j = i;
        while j < path.len() && path[j] == path[i] {
            j += 1;
        }
        let a = path[i];
        v.push(json!([if a.k == REST { -1 } else { a.k as i64 }, a.cap, a.flush, j - i]));
        i = j;
    }
    json!(v)
}

pub fn expand_schedule(v: &Value) -> Option<Vec<Act>> {
    let mut out = vec![];
    for a in v.as_array()? {
        let k = a[0].as_i64()?;
        let act = Act { k: if k < 0 { REST } else { k as u32 }, cap: a[1].as_u64()? as u32, flush: a[2].as_u64()? as u8 };
        for _ in 0..a[3].as_u64().unwrap_or(1) {
            out.push(act);
        }
    }
    Some(out)
}

impl<'a> Model for CompModel<'a> {
    type S = St;
    type A = Act;

    fn actions(&self, s: &St, out: &mut Vec<Act>) {
        if s.idle >= 2 {
            out.push(Act { k: REST, cap: LARGE, flush: F_FINISH });
            return;
        }
        if s.declared.is_some() {
            // Finish is sticky: only the output capacity is left to choose
            for &cap in &self.caps {
                out.push(Act { k: REST, cap, flush: F_FINISH });
            }
            if !self.flushes.is_empty() {
                out.push(Act { k: 0, cap: 0, flush: F_RESET });
            }
            return;
        }
        for &f in &self.flushes {
            for &k in &self.chunks {
                for &cap in &self.caps {
                    out.push(Act { k, cap, flush: f });
                }
            }
        }
        if !self.flushes.is_empty() && s.calls > 0 {
            out.push(Act { k: 0, cap: 0, flush: F_RESET });
        }
    }

    fn step(&self, s: &mut St, a: Act, path: &[Act]) -> bool {
        watchdog::pulse();
        if a.flush == F_SETLEVEL0 || a.flush == F_SETLEVEL1 {
            self.count("level_switches");
            s.c.set_compression_level_raw(a.flush - F_SETLEVEL0);
            s.calls += 1;
            return true;
        }
        if a.flush == F_RESET {
            self.count("resets");
            s.c.reset();
            s.base = s.ip;
            s.out.clear();
            s.declared = None;
            s.prev_room_left = true;
            s.full_points.clear();
            s.adler_ref = 1;
            s.calls += 1;
            s.idle += 1;
            return true;
        }
        let flush_i = if s.declared.is_some() { F_FINISH } else { a.flush };
        let limit = s.declared.unwrap_or(self.input.len());
        let left = limit - s.ip;
        let k = if s.declared.is_some() || a.k == REST { left } else { (a.k as usize).min(left) };
        let entry = if a.cap == CAP_CALLBACK && self.entry == Entry::Compress { Entry::Callback } else { self.entry };
        let cap = if a.cap == CAP_CALLBACK { LARGE as usize } else { a.cap as usize };
        let inp = &self.input[s.ip..s.ip + k];
        let mut buf: Vec<u8> = if entry == Entry::Callback { vec![] } else { vec![0u8; cap] };
        let res = guarded(|| match entry {
            Entry::Compress => {
                let (st, c, w) = compress(&mut s.c, inp, &mut buf, FL[flush_i as usize]);
                (st as i32, c, w)
            }
            Entry::Callback => {
                let mut sink: Vec<u8> = vec![];
                let (st, c) = compress_to_output(&mut s.c, inp, FL[flush_i as usize], |o: &[u8]| {
                    sink.extend_from_slice(o);
                    true
                });
                let w = sink.len();
                buf = sink;
                (st as i32, c, w)
            }
            Entry::Deflate => {
                let r = deflate(&mut s.c, inp, &mut buf, mz_of(flush_i));
                let st = match r.status {
                    Ok(miniz_oxide::MZStatus::StreamEnd) => 1,
                    Ok(_) => 0,
                    Err(miniz_oxide::MZError::Buf) => 0, // nothing to do: no input, no flush
                    Err(e) => e as i32,
                };
                (st, r.bytes_consumed, r.bytes_written)
            }
        });
        s.calls += 1;
        let (st, consumed, written) = match res {
            Ok(x) => x,
            Err(p) => {
                self.viol(self.prop, "panic", format!("compress call panicked: {}", p), path);
                s.bad = true;
                return false;
            }
        };
        macro_rules! fail {
            ($owner:expr, $site:expr, $($arg:tt)*) => {{
                self.viol($owner, $site, format!($($arg)*), path);
                s.bad = true;
                return false;
            }};
        }
        let cap_eff = if entry == Entry::Callback { usize::MAX } else { cap };
        if consumed > k || written > cap_eff {
            fail!("C02", "counts", "consumed {} of {} offered, wrote {} of {} capacity", consumed, k, written, cap_eff);
        }
        if st != TDEFLStatus::Okay as i32 && st != TDEFLStatus::Done as i32 {
            fail!("C02", "error-status", "legal call (flush {}, {} input bytes, capacity {}) returned status {}", flush_i, k, cap, st);
        }
        if flush_i == F_FINISH && s.declared.is_none() {
            s.declared = Some(s.ip + k);
        }
        s.adler_ref = adler32_def(s.adler_ref, &self.input[s.ip..s.ip + consumed]);
        s.ip += consumed;
        s.out.extend_from_slice(&buf[..written]);
        let progressed = consumed > 0 || written > 0;
        // C16: running Adler-32 equals the checksum of all input consumed so far
        if self.cfg.zlib {
            let want = s.adler_ref;
            if s.c.adler32() != want {
                fail!("C16", "running-adler", "CompressorOxide::adler32() = {:08x} after consuming {} bytes, Adler-32 of those bytes is {:08x}", s.c.adler32(), s.ip - s.base, want);
            }
        }
        let room_left = written < cap_eff;
        if st == TDEFLStatus::Done as i32 {
            if flush_i != F_FINISH {
                fail!("C02", "done-without-finish", "Done returned for flush mode {}", flush_i);
            }
            s.done = true;
            self.check_done(s, path);
            return false;
        }
        // C12: flush points
        if matches!(flush_i, F_SYNC | F_FULL | F_PARTIAL) && s.prev_room_left && consumed == k && room_left && entry != Entry::Callback {
            self.count("flush_points_checked");
            let mut o = Opts::fmt(self.cfg.zlib);
            o.keep_tokens = false;
            let t = ref_inflate(&s.out, &o);
            let ok = matches!(t.verdict, Verdict::Starved(_)) && t.out == self.input[s.base..s.ip];
            if !ok {
                fail!("C12", &format!("flush-point-not-decodable/{}", ["", "sync", "full", "", "partial"][flush_i as usize]),
                    "after a {} flush the {} bytes emitted so far decode to {} bytes ({:?}); {} input bytes were supplied",
                    ["", "Sync", "Full", "", "Partial"][flush_i as usize], s.out.len(), t.out.len(), t.verdict, s.ip - s.base);
            }
            if flush_i != F_PARTIAL {
                let n = s.out.len();
                if n < 4 || s.out[n - 4..] != [0, 0, 0xff, 0xff] {
                    fail!("C12", "flush-marker-missing", "output after a {} flush does not end with the empty stored block marker 00 00 ff ff", if flush_i == F_SYNC { "Sync" } else { "Full" });
                }
            }
            if flush_i == F_FULL {
                s.full_points.push(FlushPoint { kind: flush_i, out_len: s.out.len(), in_len: s.ip - s.base });
            }
        } else if flush_i == F_FULL && s.prev_room_left && consumed == k && s.ip - s.base <= 20_000 && entry != Entry::Callback {
            // a Full flush whose own output did not fit the caller's buffer: with at most 20000 bytes
            // consumed since the start no block was cut before, so this call did perform the flush;
            // the history cut must hold at this input offset (standalone decoding is not checked:
            // the byte offset of the cut is only known once the marker has been drained)
            self.count("full_flush_points_unqualified");
            s.full_points.push(FlushPoint { kind: 99, out_len: usize::MAX, in_len: s.ip - s.base });
        }
        s.prev_room_left = room_left;
        s.idle = if progressed { 0 } else { s.idle + 1 };
        true
    }

    fn fingerprint(&self, _s: &St) -> Option<u128> {
        // hashing the ~310 KB compressor costs far more than re-executing a call (measured 60 us
        // vs 1-20 us): the compressor explorations are stateless (DESIGN 2.2)
        None
    }

    fn terminal(&self, s: &St) -> bool {
        s.bad || s.done
    }

    fn at_end(&self, _s: &St, _path: &[Act]) {}

    fn policy_action(&self, s: &St, policy: Act) -> Act {
        // once all input has been offered (or the end was declared) the policy closes the stream,
        // keeping its own output capacity (draining through tiny buffers is part of the space)
        if s.declared.is_some() || s.ip == self.input.len() {
            Act { k: REST, cap: policy.cap, flush: F_FINISH }
        } else {
            policy
        }
    }

    fn complete(&self, s: &mut St, path: &mut Vec<Act>) {
        // default driver: Finish with everything and a large buffer until Done
        let bound = self.input.len() + s.out.len() + 8;
        let mut n = 0;
        while !self.terminal(s) {
            let a = Act { k: REST, cap: LARGE, flush: F_FINISH };
            path.push(a);
            if !self.step(s, a, path) {
                break;
            }
            n += 1;
            if n > bound {
                self.viol("C02", "no-done", format!("Done not reached within {} default Finish calls", bound), path);
                s.bad = true;
                break;
            }
        }
    }
}


pub fn small_inputs() -> Vec<(String, Vec<u8>)> {
    let mut v: Vec<(String, Vec<u8>)> = vec![];
    for s in crate::gen::all_strings(b"ab", 4) {
        v.push((format!("A2:{}", String::from_utf8_lossy(&s)), s));
    }
    v.push(("abcabcabcx".into(), b"abcabcabcx".to_vec()));
    v
}

pub fn explore_cfgs(th: bool) -> Vec<Cfg> {
    let mut v = vec![
        Cfg { level: 6, strat: 0, zlib: true, wbits: 15, ctor: 0 },
        Cfg { level: 1, strat: 0, zlib: true, wbits: 15, ctor: 1 },
        Cfg { level: 0, strat: 0, zlib: true, wbits: 15, ctor: 1 },
        Cfg { level: 9, strat: 0, zlib: false, wbits: 15, ctor: 0 },
        Cfg { level: 4, strat: 1, zlib: true, wbits: 15, ctor: 0 },
        Cfg { level: 2, strat: 3, zlib: false, wbits: 15, ctor: 0 },
    ];
    if th {
        v.extend([
            Cfg { level: 6, strat: 4, zlib: true, wbits: 15, ctor: 0 },
            Cfg { level: 6, strat: 2, zlib: false, wbits: 15, ctor: 0 },
            Cfg { level: 6, strat: 0, zlib: true, wbits: 12, ctor: 0 },
            Cfg { level: 6, strat: 0, zlib: true, wbits: 9, ctor: 0 },
            Cfg { level: 10, strat: 0, zlib: true, wbits: 15, ctor: 0 },
            Cfg { level: 3, strat: 0, zlib: false, wbits: 15, ctor: 1 },
            Cfg { level: 1, strat: 0, zlib: false, wbits: 15, ctor: 0 },
        ]);
    }
    v
}

struct Acc {
    secs: [f64; 3],
    stats: Stats,
    cov: BTreeMap<&'static str, u64>,
    runs: u64,
}

pub struct Explored {
    pub total: Stats,
    pub cov: BTreeMap<&'static str, u64>,
    pub runs: u64,
    pub work_items: usize,
    pub secs: [f64; 3],
    pub full_depth: usize,
    pub cfg_names: Vec<String>,
}

pub fn run(tier: &str, prop: &str) -> i32 {
    let rep = Report::new(prop, tier, "model_checking");
    let th = rep.thorough();
    let ex = explore(&rep, prop, th);
    finish_report(&rep, prop, th, ex)
}

/// The schedule exploration itself; `prop` selects which monitors report (C02, C12 or C16).
pub fn explore(rep: &Report, prop: &str, th: bool) -> Explored {
    let rep: &Report = rep;
    let small = small_inputs();
    let medium = corpus::medium_inputs();
    let long = corpus::long_inputs();
    let cfgs: Vec<Cfg> = if prop == "C16" { explore_cfgs(th).into_iter().filter(|c| c.zlib).collect() } else { explore_cfgs(th) };
    let entries = [Entry::Compress, Entry::Callback, Entry::Deflate];
    #[derive(Clone, Copy)]
    enum Work {
        /// full depth on a small input: (input, cfg, entry, first action index)
        Full(usize, usize, usize, usize),
        /// deviation search on a medium input: (input, cfg, entry, policy index)
        DevMed(usize, usize, usize, usize),
        /// deviation search on a long input: (input, cfg, policy index)
        DevLong(usize, usize, usize),
        /// flush sequences on a medium input: (input, cfg, entry)
        FlushSeq(usize, usize, usize),
        /// boundary-straddling run inputs under a few schedules: (input, cfg)
        Straddle(usize, usize),
        /// Full flush after the dictionary wrapped, then 1/2/3/all bytes: (input, cfg)
        WrapFull(usize, usize),
        /// the largest possible coded block against output capacities around the compressor's own
        /// buffer sizes (64 KiB code buffer, 85 196-byte output buffer): (cfg, capacity)
        BigBlock(usize, u32),
    }
    let chunks_s: Vec<u32> = vec![0, 1, 2, REST];
    let caps_s: Vec<u32> = vec![1, 5, LARGE];
    let flushes_s: Vec<u8> = if prop == "C12" { vec![0, 1, 2, 3, 4, 5] } else { vec![0, 1, 2, 3, 4, 5, 6, 7] };
    let nact_s = chunks_s.len() * caps_s.len() * flushes_s.len();
    let chunks_f: Vec<u32> = vec![0, 1, 2, 257, 258, 259, 4096, REST];
    let caps_f: Vec<u32> = vec![1, 2, 5, 100, 85195, 85196, LARGE];
    let pol_med: Vec<Act> = vec![
        Act { k: REST, cap: LARGE, flush: F_NONE },
        Act { k: 100, cap: 100, flush: F_NONE },
        Act { k: 7, cap: 5, flush: F_NONE },
        Act { k: 1, cap: 1, flush: F_NONE },
    ];
    let pol_long: Vec<Act> = vec![
        Act { k: REST, cap: LARGE, flush: F_NONE },
        Act { k: 4096, cap: LARGE, flush: F_NONE },
        Act { k: REST, cap: 1000, flush: F_NONE },
        Act { k: 4096, cap: 1000, flush: F_NONE },
        Act { k: 40000, cap: 85195, flush: F_NONE },
        Act { k: REST, cap: 85196, flush: F_NONE },
        Act { k: 3, cap: 100, flush: F_NONE },
        Act { k: 258, cap: 5, flush: F_NONE },
    ];
    let mut work: Vec<Work> = vec![];
    let full_depth = if th { 3 } else { 2 };
    for i in 0..small.len() {
        for c in 0..cfgs.len() {
            for e in 0..3 {
                if (i * 7 + c * 3 + e) % (if th { 3 } else { 18 }) != 0 {
                    continue;
                }
                for a in 0..nact_s {
                    work.push(Work::Full(i, c, e, a));
                }
            }
        }
    }
    for i in 0..medium.len() {
        for c in 0..cfgs.len() {
            for e in 0..3 {
                if !th && (i + c + e) % 4 != 0 {
                    continue;
                }
                for p in 0..pol_med.len() {
                    work.push(Work::DevMed(i, c, e, p));
                }
            }
        }
    }
    for i in 0..medium.len() {
        for c in 0..cfgs.len() {
            for e in [0usize, 2] {
                if !th && (i + c + e) % 3 != 0 {
                    continue;
                }
                work.push(Work::FlushSeq(i, c, e));
            }
        }
    }
    let straddle = corpus::straddle_inputs(th);
    let straddle_cfgs: Vec<Cfg> = vec![
        Cfg { level: 2, strat: 3, zlib: false, wbits: 15, ctor: 0 },
        Cfg { level: 6, strat: 3, zlib: true, wbits: 15, ctor: 0 },
        Cfg { level: 1, strat: 3, zlib: false, wbits: 15, ctor: 0 },
        Cfg { level: 6, strat: 0, zlib: false, wbits: 15, ctor: 0 },
        Cfg { level: 1, strat: 0, zlib: true, wbits: 15, ctor: 0 },
    ];
    for i in 0..straddle.len() {
        for c in 0..straddle_cfgs.len() {
            work.push(Work::Straddle(i, c));
        }
    }
    let wrapfull = corpus::wrapfull_inputs();
    let mut wrapfull_cfgs: Vec<Cfg> = vec![];
    for level in 0..=10u8 {
        for (strat, zlib, wbits) in [(0u8, false, 15u8), (3, true, 15), (1, false, 15), (0, true, 9), (4, false, 15)] {
            if !th && !matches!((level, strat), (1, 0) | (2, _) | (6, _) | (9, 0) | (9, 3) | (0, 0) | (4, 1) | (10, 0)) {
                continue;
            }
            wrapfull_cfgs.push(Cfg { level, strat, zlib, wbits, ctor: 0 });
        }
    }
    if prop != "C16" {
        for i in 0..wrapfull.len() {
            for c in 0..wrapfull_cfgs.len() {
                work.push(Work::WrapFull(i, c));
            }
        }
    }
    let bigblock = corpus::max_block_input();
    let bigblock_cfgs: Vec<Cfg> = vec![Cfg { level: 2, strat: 4, zlib: false, wbits: 15, ctor: 0 }, Cfg { level: 6, strat: 4, zlib: true, wbits: 15, ctor: 0 }, Cfg { level: 6, strat: 0, zlib: false, wbits: 15, ctor: 0 }];
    if prop == "C02" {
        for c in 0..bigblock_cfgs.len() {
            for cap in [65_535u32, 65_536, 65_537, 70_000, 85_195, 85_196, 85_197] {
                work.push(Work::BigBlock(c, cap));
            }
        }
    }
    for i in 0..long.len() {
        for c in 0..cfgs.len().min(if th { 6 } else { 4 }) {
            if !th && (i + c) % 2 != 0 {
                continue;
            }
            for p in 0..pol_long.len() {
                work.push(Work::DevLong(i, c, p));
            }
        }
    }
    let accs = par_for(work.len(), || Acc { secs: [0.0; 3], stats: Stats::default(), cov: BTreeMap::new(), runs: 0 }, |ix, acc| {
        watchdog::tick(ix as u64, 0);
        let t0 = std::time::Instant::now();
        let kidx = match work[ix] { Work::Full(..) => 0, Work::DevMed(..) | Work::FlushSeq(..) | Work::Straddle(..) => 1, Work::DevLong(..) | Work::WrapFull(..) | Work::BigBlock(..) => 2 };
        match work[ix] {
            Work::Full(i, c, e, a0) => {
                let m = CompModel { prop, input: &small[i].1, name: &small[i].0, cfg: cfgs[c], entry: entries[e], rep: &rep, chunks: chunks_s.clone(), caps: caps_s.clone(), flushes: flushes_s.clone(), cov: Mutex::new(BTreeMap::new()), ffi_every: 5 };
                let mut all = vec![];
                m.actions(&m.init(), &mut all);
                let first = all[a0];
                let mut s = m.init();
                let path = vec![first];
                acc.stats.transitions += 1;
                if m.step(&mut s, first, &path) {
                    let mut dfs = Dfs::new(&m, false, full_depth - 1, u64::MAX);
                    dfs.run(s);
                    acc.stats.merge(&dfs.stats);
                }
                acc.runs += 1;
                for (k, v) in m.cov.lock().unwrap().iter() {
                    *acc.cov.entry(k).or_insert(0) += v;
                }
            }
            Work::DevMed(i, c, e, p) => {
                let m = CompModel { prop, input: &medium[i].data, name: &medium[i].name, cfg: cfgs[c], entry: entries[e], rep: &rep, chunks: chunks_f.clone(), caps: caps_f.clone(), flushes: flushes_s.clone(), cov: Mutex::new(BTreeMap::new()), ffi_every: 9 };
                let pol = pol_med[p];
                // long policy runs get a thinner alternative menu
                let alts: Vec<Act> = if p <= 1 {
                    let mut v = vec![];
                    for &f in &flushes_s {
                        for &k in &chunks_f {
                            for &cap in &caps_f {
                                v.push(Act { k, cap, flush: f });
                            }
                        }
                    }
                    v
                } else {
                    let mut v = vec![];
                    for &f in &[F_NONE, F_SYNC, F_FULL, F_FINISH, F_PARTIAL] {
                        for &(k, cap) in &[(0u32, 1u32), (1, 5), (REST, 2), (REST, LARGE), (258, 100)] {
                            v.push(Act { k, cap, flush: f });
                        }
                    }
                    v
                };
                let mut alts = alts;
                alts.push(Act { k: 0, cap: 0, flush: F_RESET });
                if e == 0 {
                    for &f in &[F_NONE, F_SYNC, F_FULL, F_FINISH, F_PARTIAL] {
                        for &k in &[0u32, 1, 258, REST] {
                            alts.push(Act { k, cap: CAP_CALLBACK, flush: f });
                        }
                    }
                }
                let mut ds = DevSearch::new(&m, pol, alts, 100_000, u64::MAX);
                ds.stride = match p { 0 | 1 => 1, 2 => if th { 4 } else { 16 }, _ => if th { 16 } else { 64 } };
                ds.run(m.init(), 1);
                acc.stats.merge(&ds.stats);
                if th && p <= 1 {
                    // second deviation level with a thinner menu (the full menu squared is ~10^7 runs per item)
                    let mut thin = vec![];
                    for &f in &[F_NONE, F_SYNC, F_FULL, F_FINISH, F_PARTIAL] {
                        for &(k, cap) in &[(0u32, 1u32), (1, 5), (REST, 2), (REST, LARGE), (258, 100)] {
                            thin.push(Act { k, cap, flush: f });
                        }
                    }
                    let mut ds = DevSearch::new(&m, pol, thin, 100_000, u64::MAX);
                    ds.stride = if p == 0 { 1 } else { 2 };
                    ds.run(m.init(), 2);
                    acc.stats.merge(&ds.stats);
                }
                acc.runs += 1;
                for (k, v) in m.cov.lock().unwrap().iter() {
                    *acc.cov.entry(k).or_insert(0) += v;
                }
            }
            Work::FlushSeq(i, c, e) => {
                // [part1, f1] [second chunk, f2] [part2, f3] then Finish: every triple of flush modes,
                // with and without data between two consecutive flushes, large and 5-byte buffers
                let data = &medium[i].data;
                let m = CompModel { prop, input: data, name: &medium[i].name, cfg: cfgs[c], entry: entries[e], rep: &rep, chunks: vec![], caps: vec![], flushes: vec![], cov: Mutex::new(BTreeMap::new()), ffi_every: 11 };
                let fl: [u8; 6] = [F_NONE, F_SYNC, F_FULL, F_PARTIAL, 5, 6];
                let n = data.len() as u32;
                for &c1 in &[1u32, n / 3, 300.min(n - 1)] {
                    for &mid in &[0u32, 1, 40] {
                        // capacities per step: roomy, 5-byte, and mixed ones where an earlier block
                        // overflows a small buffer, is drained, and a later marker meets 1-3 free bytes
                        for &(cap, cap2, cap3) in &[(LARGE, LARGE, LARGE), (5u32, 5u32, 5u32), (16, 2, LARGE), (5, 1, LARGE), (16, 3, 5)] {
                            for &f1 in &fl {
                                for &f2 in &fl {
                                    for &f3 in &[F_NONE, F_SYNC, F_FULL] {
                                        if cap != cap2 && (f1 == 5 || f1 == 6 || f2 == 6) {
                                            continue;
                                        }
                                        let sched = [Act { k: c1, cap, flush: f1 }, Act { k: mid, cap: cap2, flush: f2 }, Act { k: 60, cap: cap3, flush: f3 }];
                                        let mut st = m.init();
                                        let mut path = vec![];
                                        let mut alive = true;
                                        for a in sched {
                                            // with a 5-byte buffer drain each step before the next (keeps C12's precondition reachable)
                                            let mut guard = 0;
                                            loop {
                                                path.push(a);
                                                acc.stats.transitions += 1;
                                                let ip0 = st.ip;
                                                if !m.step(&mut st, if guard == 0 { a } else { Act { k: 0, cap: LARGE, flush: a.flush } }, &path) {
                                                    alive = false;
                                                    break;
                                                }
                                                guard += 1;
                                                if st.prev_room_left || guard > 3 || st.ip == ip0 && guard > 1 {
                                                    break;
                                                }
                                            }
                                            if !alive {
                                                break;
                                            }
                                        }
                                        if alive {
                                            m.complete(&mut st, &mut path);
                                        }
                                        acc.stats.executions += 1;
                                    }
                                }
                            }
                        }
                    }
                }
                // level changes at flush boundaries: [first third, Full] [level 0] [200 bytes, Sync or Full]
                // [level 1 or 0] [rest, Finish]; with the input followed by a copy of itself, so that the
                // last part starts with the very bytes that sit at window offset 0
                if e == 0 {
                    let mut doubled = data.clone();
                    doubled.extend_from_slice(b"--separator--");
                    doubled.extend_from_slice(data);
                    let m2 = CompModel { prop, input: &doubled, name: &medium[i].name, cfg: cfgs[c], entry: entries[e], rep: &rep, chunks: vec![], caps: vec![], flushes: vec![], cov: Mutex::new(BTreeMap::new()), ffi_every: 5 };
                    let n1 = data.len() as u32;
                    for &f1 in &[F_FULL, F_SYNC] {
                        for &l1 in &[F_SETLEVEL0, F_SETLEVEL1] {
                            for &f2 in &[F_SYNC, F_FULL] {
                                for &l2 in &[F_SETLEVEL1, F_SETLEVEL0] {
                                    let sched = [
                                        Act { k: n1, cap: LARGE, flush: f1 },
                                        Act { k: 0, cap: 0, flush: l1 },
                                        Act { k: 13, cap: LARGE, flush: f2 },
                                        Act { k: 0, cap: 0, flush: l2 },
                                        Act { k: REST, cap: LARGE, flush: F_FINISH },
                                    ];
                                    let mut st = m2.init();
                                    let mut path = vec![];
                                    let mut alive = true;
                                    for a in sched {
                                        path.push(a);
                                        acc.stats.transitions += 1;
                                        if !m2.step(&mut st, a, &path) {
                                            alive = false;
                                            break;
                                        }
                                    }
                                    if alive {
                                        m2.complete(&mut st, &mut path);
                                    }
                                    acc.stats.executions += 1;
                                }
                            }
                        }
                    }
                    for (k, v) in m2.cov.lock().unwrap().iter() {
                        *acc.cov.entry(k).or_insert(0) += v;
                    }
                }
                // [any first call] [reset()] [rest under Finish]: a stream abandoned after one call of
                // every kind (pending lazy match, unflushed block, unaligned block end, pending output,
                // declared end), then the remaining input as a new stream on the recycled object
                for &f1 in &[F_NONE, F_SYNC, F_FULL, F_FINISH, F_PARTIAL, 5, 6, 7] {
                    for &k1 in &[0u32, 1, 2, 257, 258, 259, n / 2, n - 1, REST] {
                        for &cap1 in &[1u32, 5, 100, LARGE] {
                            for &cap2 in &[LARGE, 7] {
                                let mut st = m.init();
                                let mut path = vec![];
                                let mut alive = true;
                                for a in [Act { k: k1, cap: cap1, flush: f1 }, Act { k: 0, cap: 0, flush: F_RESET }] {
                                    path.push(a);
                                    acc.stats.transitions += 1;
                                    if !m.step(&mut st, a, &path) {
                                        alive = false;
                                        break;
                                    }
                                }
                                while alive && !m.terminal(&st) && path.len() < 4000 {
                                    let a = Act { k: REST, cap: cap2, flush: F_FINISH };
                                    path.push(a);
                                    acc.stats.transitions += 1;
                                    alive = m.step(&mut st, a, &path);
                                }
                                acc.stats.executions += 1;
                            }
                        }
                    }
                }
                acc.runs += 1;
                for (k, v) in m.cov.lock().unwrap().iter() {
                    *acc.cov.entry(k).or_insert(0) += v;
                }
            }
            Work::Straddle(i, c) => {
                let m = CompModel { prop, input: &straddle[i].data, name: &straddle[i].name, cfg: straddle_cfgs[c], entry: Entry::Compress, rep: &rep, chunks: vec![], caps: vec![], flushes: vec![], cov: Mutex::new(BTreeMap::new()), ffi_every: 7 };
                // one-shot, window-sized chunks, chunks ending exactly at / just past the boundary
                // (and chunk sizes that are not multiples of the compressor's 4096-byte lookahead)
                for pol in [Act { k: REST, cap: LARGE, flush: F_NONE }, Act { k: 32768, cap: LARGE, flush: F_NONE }, Act { k: 32777, cap: 1000, flush: F_NONE }, Act { k: 4096, cap: 85195, flush: F_NONE }, Act { k: 1000, cap: LARGE, flush: F_NONE }, Act { k: 4097, cap: 100, flush: F_NONE }] {
                    let mut ds = DevSearch::new(&m, pol, vec![], 1_000_000, u64::MAX);
                    ds.run(m.init(), 0);
                    acc.stats.merge(&ds.stats);
                }
                // an early flush at an offset that is not a multiple of the compressor's 4096-byte
                // refill, then everything up to just past the next 32 KiB boundary with a Sync flush
                // (a C12 flush point right after the wrap), then Finish
                let n = straddle[i].data.len() as u32;
                for &k1 in &[100u32, 1000, 4097] {
                    for &f1 in &[F_SYNC, F_PARTIAL, F_FULL] {
                        let mut st = m.init();
                        let mut path = vec![];
                        let wrap_end = n.saturating_sub(200);
                        let mut alive = true;
                        for a in [Act { k: k1, cap: LARGE, flush: f1 }, Act { k: wrap_end.saturating_sub(k1), cap: LARGE, flush: F_SYNC }] {
                            path.push(a);
                            acc.stats.transitions += 1;
                            if !m.step(&mut st, a, &path) {
                                alive = false;
                                break;
                            }
                        }
                        if alive {
                            m.complete(&mut st, &mut path);
                        }
                        acc.stats.executions += 1;
                    }
                }
                // the whole input in one flushing call (the flush point lies right behind whatever the
                // compressor cut by itself near the end of the input), then Finish
                for &f1 in &[F_SYNC, F_PARTIAL, F_FULL] {
                    let mut st = m.init();
                    let a = Act { k: REST, cap: LARGE, flush: f1 };
                    let mut path = vec![a];
                    acc.stats.transitions += 1;
                    if m.step(&mut st, a, &path) {
                        m.complete(&mut st, &mut path);
                    }
                    acc.stats.executions += 1;
                }
                acc.runs += 1;
                for (k, v) in m.cov.lock().unwrap().iter() {
                    *acc.cov.entry(k).or_insert(0) += v;
                }
            }
            Work::BigBlock(c, cap) => {
                let m = CompModel { prop, input: &bigblock.data, name: &bigblock.name, cfg: bigblock_cfgs[c], entry: Entry::Compress, rep: &rep, chunks: vec![], caps: vec![], flushes: vec![], cov: Mutex::new(BTreeMap::new()), ffi_every: 7 };
                // everything offered at once with a `cap`-byte buffer, repeated until the input is
                // consumed, then Finish with the same capacity
                let mut st = m.init();
                let mut path = vec![];
                let mut n = 0;
                while !m.terminal(&st) && n < 400 {
                    let a = m.policy_action(&st, Act { k: REST, cap, flush: F_NONE });
                    path.push(a);
                    acc.stats.transitions += 1;
                    if !m.step(&mut st, a, &path) {
                        break;
                    }
                    n += 1;
                }
                acc.stats.executions += 1;
                acc.runs += 1;
            }
            Work::WrapFull(i, c) => {
                let (inp, cut) = &wrapfull[i];
                let m = CompModel { prop, input: &inp.data, name: &inp.name, cfg: wrapfull_cfgs[c], entry: Entry::Compress, rep: &rep, chunks: vec![], caps: vec![], flushes: vec![], cov: Mutex::new(BTreeMap::new()), ffi_every: 7 };
                // [everything up to the cut, Full] then [1 / 2 / 3 / 9 / all bytes, None / Sync / Full] then Finish;
                // the pre-cut part in one call or in 4096-byte calls
                for pre in [*cut as u32, 4096] {
                    for &k in &[1u32, 2, 3, 9, REST] {
                        for &f in &[F_NONE, F_SYNC, F_FULL] {
                            let mut st = m.init();
                            let mut path = vec![];
                            let mut alive = true;
                            while alive && st.ip < *cut {
                                let kk = pre.min((*cut - st.ip) as u32);
                                let a = Act { k: kk, cap: LARGE, flush: if st.ip + kk as usize == *cut { F_FULL } else { F_NONE } };
                                path.push(a);
                                acc.stats.transitions += 1;
                                alive = m.step(&mut st, a, &path);
                            }
                            if alive {
                                let a = Act { k, cap: LARGE, flush: f };
                                path.push(a);
                                acc.stats.transitions += 1;
                                alive = m.step(&mut st, a, &path);
                            }
                            if alive {
                                m.complete(&mut st, &mut path);
                            }
                            acc.stats.executions += 1;
                        }
                    }
                }
                acc.runs += 1;
                for (k, v) in m.cov.lock().unwrap().iter() {
                    *acc.cov.entry(k).or_insert(0) += v;
                }
            }
            Work::DevLong(i, c, p) => {
                let m = CompModel { prop, input: &long[i].data, name: &long[i].name, cfg: cfgs[c], entry: if p % 3 == 2 { Entry::Deflate } else { Entry::Compress }, rep: &rep, chunks: chunks_f.clone(), caps: caps_f.clone(), flushes: flushes_s.clone(), cov: Mutex::new(BTreeMap::new()), ffi_every: 3 };
                let pol = pol_long[p];
                let mut alts = vec![];
                for &f in &[F_NONE, F_SYNC, F_FULL, F_FINISH, F_PARTIAL, 5u8] {
                    for &(k, cap) in &[(0u32, 1u32), (1, 5), (REST, 100), (4096, 85195), (REST, LARGE), (258, 85196)] {
                        alts.push(Act { k, cap, flush: f });
                    }
                }
                alts.push(Act { k: 0, cap: 0, flush: F_RESET });
                let mut ds = DevSearch::new(&m, pol, alts, 2_000_000, u64::MAX);
                // tiny-chunk policies make tens of thousands of calls: deviate at a spread of indexes
                ds.stride = if pol.k != REST && pol.k < 1000 { if th { 2003 } else { 9973 } } else if pol.cap < 2000 { if th { 3 } else { 11 } } else { 1 };
                ds.run(m.init(), 1);
                acc.stats.merge(&ds.stats);
                acc.runs += 1;
                for (k, v) in m.cov.lock().unwrap().iter() {
                    *acc.cov.entry(k).or_insert(0) += v;
                }
            }
        }
        acc.secs[kidx] += t0.elapsed().as_secs_f64();
    });
    let mut total = Stats::default();
    let mut cov: BTreeMap<&'static str, u64> = BTreeMap::new();
    let mut runs = 0;
    let mut secs = [0.0f64; 3];
    for a in accs {
        for k in 0..3 {
            secs[k] += a.secs[k];
        }
        total.merge(&a.stats);
        runs += a.runs;
        for (k, v) in a.cov {
            *cov.entry(k).or_insert(0) += v;
        }
    }
    let cfg_names: Vec<String> = cfgs.iter().map(|c| c.name()).collect();
    Explored { total, cov, runs, work_items: work.len(), secs, full_depth, cfg_names }
}

fn finish_report(rep: &Report, prop: &str, th: bool, ex: Explored) -> i32 {
    let Explored { total, cov, runs, work_items, secs, full_depth, cfg_names } = ex;
    let medium = corpus::medium_inputs();
    let long = corpus::long_inputs();
    let small = small_inputs();
    let cfgs: Vec<Cfg> = explore_cfgs(th);
    // C12 extra: NoSync ... Sync equivalence on every split of the medium inputs' prefixes
    let mut nosync_pairs = 0u64;
    if prop == "C12" {
        for inp in medium.iter().take(if th { 8 } else { 4 }) {
            let d = &inp.data[..inp.data.len().min(120)];
            for cfg in cfgs.iter().take(4) {
                for cut in (0..=d.len()).step_by(if th { 1 } else { 7 }) {
                    nosync_pairs += 1;
                    let run = |first: TDEFLFlush| -> Result<(Vec<u8>, usize), String> {
                        let mut c = cfg.make();
                        let mut out = vec![0u8; 4096];
                        let (s1, c1, w1) = compress(&mut c, &d[..cut], &mut out, first);
                        let (s2, c2, w2) = compress(&mut c, &d[cut..], &mut out[w1..], TDEFLFlush::Sync);
                        if s1 != TDEFLStatus::Okay || s2 != TDEFLStatus::Okay || c1 != cut || c2 != d.len() - cut {
                            return Err(format!("status {:?}/{:?} consumed {}/{}", s1 as i32, s2 as i32, c1, c2));
                        }
                        out.truncate(w1 + w2);
                        Ok((out, w1 + w2))
                    };
                    for first in [TDEFLFlush::NoSync, TDEFLFlush::None] {
                        match guarded(|| run(first)) {
                            Ok(Ok((o, n))) => {
                                let mut op = Opts::fmt(cfg.zlib);
                                op.keep_tokens = false;
                                let t = ref_inflate(&o, &op);
                                if !(matches!(t.verdict, Verdict::Starved(_)) && t.out == d) || n < 4 || o[n - 4..] != [0, 0, 0xff, 0xff] {
                                    rep.violation("C12/nosync-then-sync", format!("{:?} then Sync at split {}: emitted bytes decode to {} of {} bytes or lack the marker ({})", first as i32, cut, t.out.len(), d.len(), cfg.name()),
                                        json!({"nosync": true, "input_hex": hex(d), "cfg": cfg.to_json(), "cut": cut, "first": first as i32}));
                                }
                            }
                            Ok(Err(e)) => rep.violation("C12/nosync-then-sync/status", e, json!({"nosync": true, "input_hex": hex(d), "cfg": cfg.to_json(), "cut": cut, "first": first as i32})),
                            Err(p) => rep.violation("C12/panic", p, json!({"nosync": true, "input_hex": hex(d), "cfg": cfg.to_json(), "cut": cut, "first": first as i32})),
                        }
                    }
                }
            }
        }
    }
    rep.set("states", json!(total.states.max(total.transitions)));
    rep.set("transitions", json!(total.transitions));
    rep.set("traces_validated_against_impl", json!(total.executions.max(cov.get("terminal_ref_decodes").copied().unwrap_or(0))));
    rep.set("explorations", json!(runs));
    rep.set("cpu_seconds_by_kind", json!({"full_depth_small": secs[0], "deviation_medium": secs[1], "deviation_long": secs[2]}));
    rep.set("work_items", json!(work_items));
    rep.set("max_calls_in_one_execution", json!(total.max_depth));
    rep.set("capped", json!(total.capped));
    rep.set("full_depth_completed_small_inputs", json!(full_depth));
    rep.set("deviation_bound_completed", json!(if th { 2 } else { 1 }));
    rep.set("deviation_note", json!("bound 1 with the full alternative menu around every policy; thorough adds bound 2 with a 25-alternative menu around the two short policies"));
    rep.set("configurations", json!(cfg_names));
    rep.set("monitor_events", json!(cov));
    rep.set("nosync_sync_pairs", json!(nosync_pairs));
    rep.set("explanation", json!("real CompressorOxide (fork = Clone) through compress / compress_to_output / deflate; legal schedules: the first Finish(k) declares the end of the input, afterwards only the output capacity varies; small inputs: every action sequence over chunk {0,1,2,rest} x capacity {1,5,large} x 6-8 flush modes to the stated depth, then default completion; medium and long inputs (66-200 KB): deviation-bounded search around constant background policies incl. tiny-chunk and tiny-buffer ones, a deviating call at every (or every n-th) call index; oracles: counts, status, running Adler-32, at Done one strict-producer stream decoding to the declared input (reference decoder, sampled system zlib and crate decoder), flush-point prefix decodability and markers, Full-flush history cut and standalone remainder"));
    rep.sample(json!({"input": small[7].0, "cfg": cfgs[0].name(), "entry": "Compress", "schedule": [[1, 5, 1, 1], [0, 1, 3, 1], [-1, 400000, 3, 2]], "meaning": "[input bytes offered (-1 rest), capacity, flush index (0 None,1 Sync,2 Full,3 Finish,4 Partial,5 NoSync,6 SyncOpt,7 PartialOpt), repeat count]"}));
    rep.sample(json!({"input": long[0].name, "bytes": brief(&long[0].data), "policy": [4096, 1000, 0], "deviation": "at each call index one of 36 alternatives"}));
    let g = |k: &str| cov.get(k).copied().unwrap_or(0);
    let needed = if prop == "C12" { g("flush_points_checked") > 1000 && g("full_flush_points_checked") > 100 } else { g("terminal_ref_decodes") > 1000 };
    if total.transitions < 50_000 || !needed {
        println!("MACHINERY vacuous: transitions={} events={:?}", total.transitions, cov);
        rep.finish();
        return 2;
    }
    rep.finish()
}

pub fn replay(v: &Value, prop: &str) -> Option<String> {
    let cfg = Cfg::from_json(&v["cfg"]);
    if v.get("nosync").is_some() {
        let d = unhex(v["input_hex"].as_str()?);
        let cut = v["cut"].as_u64()? as usize;
        let first = TDEFLFlush::new(v["first"].as_i64()? as i32).ok()?;
        let mut c = cfg.make();
        let mut out = vec![0u8; 4096];
        let (_, _, w1) = compress(&mut c, &d[..cut], &mut out, first);
        let (_, _, w2) = compress(&mut c, &d[cut..], &mut out[w1..], TDEFLFlush::Sync);
        out.truncate(w1 + w2);
        let t = ref_inflate(&out, &Opts::fmt(cfg.zlib));
        return if t.out == d && out.ends_with(&[0, 0, 0xff, 0xff]) { None } else { Some("prefix does not decode / marker missing".into()) };
    }
    let name = v["input_name"].as_str()?.to_string();
    let input = match v["input_hex"].as_str() {
        Some(h) => unhex(h),
        None => corpus::long_inputs().into_iter().chain(corpus::medium_inputs()).chain(corpus::straddle_inputs(true)).chain(corpus::wrapfull_inputs().into_iter().map(|x| x.0)).chain(std::iter::once(corpus::max_block_input())).find(|i| i.name == name)?.data,
    };
    let entry = match v["entry"].as_str()? {
        "Compress" => Entry::Compress,
        "Callback" => Entry::Callback,
        _ => Entry::Deflate,
    };
    let rep = Report::new(prop, "quick", "model_checking");
    let m = CompModel { prop, input: &input, name: &name, cfg, entry, rep: &rep, chunks: vec![], caps: vec![], flushes: vec![], cov: Mutex::new(BTreeMap::new()), ffi_every: 1 };
    let mut s = m.init();
    let sched = expand_schedule(&v["schedule"])?;
    let mut path = vec![];
    for a in sched {
        path.push(a);
        if !m.step(&mut s, a, &path) {
            break;
        }
    }
    if !m.terminal(&s) {
        m.complete(&mut s, &mut path);
    }
    if rep.violation_count() > 0 {
        Some(format!("{} violation(s) replaying {} calls", rep.violation_count(), path.len()))
    } else {
        None
    }
}
