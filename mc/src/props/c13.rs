//! C13: streaming inflate obeys its status protocol and always makes progress.
//! S-hist on the real `InflateState` over the quantifier's own alphabet
//! chunk {0,1,2,rest} x room {0,1,3,large} x flush {None,Sync,Finish,Full}; every transition is
//! judged by a small non-deterministic protocol model (DESIGN 3.5).
use crate::drv::*;
use crate::evidence::Report;
use crate::explore::{Dfs, Model, Stats};
use crate::gen::GenStream;
use crate::refmodel::{ref_inflate, Opts, Verdict};
use crate::util::{hex, par_for, unhex, H128};
use crate::{corpus, guarded, streams, watchdog};
use miniz_oxide::inflate::stream::{inflate, InflateState};
use miniz_oxide::{DataFormat, MZFlush};
use serde_json::{json, Value};
use std::collections::BTreeMap;
use std::hash::Hasher;
use std::sync::Mutex;

#[derive(Clone, Copy, PartialEq, Eq, Debug)]
pub enum Kind {
    Valid,
    Truncated,
    Corrupt,
    Trailing,
}

pub struct Case {
    pub data: Vec<u8>,
    pub fmt: DataFormat,
    pub kind: Kind,
    /// delivered bytes must always be a prefix of this
    pub expected: Vec<u8>,
    /// length of the embedded valid stream (Valid/Trailing)
    pub stream_len: usize,
    pub desc: String,
    /// 0 = a new InflateState; h > 0 = a state that first handled two-step history (h-1)/2 (a dynamic
    /// stream, then a stream rejected at its block header) and was reset to `fmt` (odd h) or
    /// MinReset (even h)
    pub history: u8,
}

const LARGE: usize = 1 << 17;
pub const CHUNKS: [u32; 4] = [0, 1, 2, u32::MAX];
pub const ROOMS: [u32; 5] = [0, 1, 3, EXACT, LARGE as u32];
/// room sentinel: exactly the plaintext bytes still to be delivered (the exact-fit buffer)
pub const EXACT: u32 = u32::MAX - 1;
/// pseudo flush indexes: InflateState::reset(format) / reset_as(MinReset); the stream is then
/// offered again from its first byte and the model starts over
pub const RESET: u8 = 4;
pub const RESET_MIN: u8 = 5;
pub const FLUSHES: [MZFlush; 4] = [MZFlush::None, MZFlush::Sync, MZFlush::Finish, MZFlush::Full];

#[derive(Clone, Copy, Debug, PartialEq, Eq)]
pub struct Act {
    pub k: u32,
    pub room: u32,
    pub flush: u8,
}

#[derive(Clone)]
pub struct St {
    pub st: Box<InflateState>,
    pub ip: usize,
    pub delivered: usize,
    pub calls: u32,
    pub finish_seen: bool,
    pub ended: bool,
    pub data_err: bool,
    pub buf_sticky: bool,
    /// last call returned Buf because no input was offered (recoverable)
    pub starved: bool,
    pub idle: u8,
    pub bad: bool,
    /// a Finish call on the first call with too little room: by design the wrapper poisons itself
    pub first_finish_short: bool,
    /// some call other than a (rejected) Full flush has been made
    pub any_real_call: bool,
}

pub struct InfModel<'a> {
    pub c: &'a Case,
    pub rep: &'a Report,
    pub cov: Mutex<BTreeMap<&'static str, u64>>,
    pub liveness: bool,
}

fn flush_of(f: u8) -> MZFlush {
    FLUSHES[f as usize]
}

impl<'a> InfModel<'a> {
    pub fn init(&self) -> St {
        St {
            st: if self.c.history == 0 { InflateState::new_boxed(self.c.fmt) } else { crate::drv::deep_history_state((self.c.history as usize - 1) / 2, self.c.fmt, (self.c.history - 1) % 2 == 1) },
            ip: 0,
            delivered: 0,
            calls: 0,
            finish_seen: false,
            ended: false,
            data_err: false,
            buf_sticky: false,
            starved: false,
            idle: 0,
            bad: false,
            first_finish_short: false,
            any_real_call: false,
        }
    }
    fn rp(&self, path: &[Act]) -> Value {
        json!({"stream_hex": hex(&self.c.data), "fmt": fmt_name(self.c.fmt), "kind": format!("{:?}", self.c.kind), "expected_hex": if self.c.expected.len() < 4000 { json!(hex(&self.c.expected)) } else { Value::Null },
               "stream_len": self.c.stream_len, "desc": self.c.desc, "history": self.c.history,
               "schedule": path.iter().map(|a| json!([if a.k == u32::MAX { -1 } else { a.k as i64 }, a.room, a.flush])).collect::<Vec<_>>()})
    }
    fn viol(&self, site: &str, what: String, path: &[Act]) {
        self.rep.violation(&format!("C13/{}", site), format!("{} :: {} [{}] after {} calls", what, fmt_name(self.c.fmt), self.c.desc, path.len()), self.rp(path));
    }
    fn count(&self, k: &'static str) {
        *self.cov.lock().unwrap().entry(k).or_insert(0) += 1;
    }

    /// The usual driver loop from state `s`: must reach StreamEnd with the whole plaintext.
    fn liveness_from(&self, s: &St, path: &[Act], chunk: usize, room: usize) {
        let c = self.c;
        let mut st = s.st.clone();
        let total = c.data.len() + c.expected.len() + 8;
        let r = match guarded(|| inflate_loop_from(&mut st, &c.data, s.ip, chunk, room, MZFlush::None, Vec::new())) {
            Ok(r) => r,
            Err(p) => {
                self.viol("panic", format!("inflate() panicked in the usual loop (chunk {}, room {}) from this state: {}", chunk as isize, room, p), path);
                return;
            }
        };
        self.count("liveness_runs");
        let ok = r.code == 1 && s.delivered + r.out.len() == c.expected.len() && r.out[..] == c.expected[s.delivered..] && r.consumed == c.stream_len && (r.calls as usize) <= total;
        if !ok {
            self.viol(
                "liveness",
                format!(
                    "usual loop (chunk {}, room {}) from this state ends with code {} after {} calls: {} of {} bytes, consumed {} of {} (bound {} calls)",
                    chunk as isize, room, r.code, r.calls, s.delivered + r.out.len(), c.expected.len(), r.consumed, c.stream_len, total
                ),
                path,
            );
        }
    }
}

impl<'a> Model for InfModel<'a> {
    type S = St;
    type A = Act;

    fn actions(&self, s: &St, out: &mut Vec<Act>) {
        if s.idle >= 2 {
            out.push(Act { k: u32::MAX, room: LARGE as u32, flush: 0 });
            return;
        }
        let exact = self.c.expected.len().saturating_sub(s.delivered);
        for f in 0..4u8 {
            for &k in &CHUNKS {
                for &room in &ROOMS {
                    // the exact-fit room only where it is a new value
                    if room == EXACT && (exact <= 3 && exact != 2 || exact >= LARGE) {
                        continue;
                    }
                    out.push(Act { k, room, flush: f });
                }
            }
        }
        if s.any_real_call {
            out.push(Act { k: 0, room: 0, flush: RESET });
            if self.c.kind != Kind::Corrupt {
                out.push(Act { k: 0, room: 0, flush: RESET_MIN });
            }
        }
    }

    fn step(&self, s: &mut St, a: Act, path: &[Act]) -> bool {
        watchdog::pulse();
        let c = self.c;
        if a.flush == RESET || a.flush == RESET_MIN {
            // a reset inflater answers like a new one (MinReset keeps the window contents, which a
            // stream that never reaches before its own start cannot see)
            self.count("resets");
            if a.flush == RESET {
                s.st.reset(c.fmt);
            } else {
                s.st.reset_as(miniz_oxide::inflate::stream::MinReset);
            }
            let (calls, idle) = (s.calls + 1, s.idle + 1);
            let st = std::mem::replace(&mut s.st, InflateState::new_boxed(c.fmt));
            *s = self.init();
            s.st = st;
            s.calls = calls;
            s.idle = idle;
            return true;
        }
        let left = c.data.len() - s.ip;
        let k = if a.k == u32::MAX { left } else { (a.k as usize).min(left) };
        let room = if a.room == EXACT { c.expected.len().saturating_sub(s.delivered) } else { a.room as usize };
        let flush = flush_of(a.flush);
        let mut buf = vec![0xEEu8; room];
        // the wrapper's own notion: a Full-flush call is rejected before it counts as a call
        let first_call = !s.any_real_call;
        let r = match guarded(|| inflate(&mut s.st, &c.data[s.ip..s.ip + k], &mut buf, flush)) {
            Ok(r) => r,
            Err(p) => {
                self.viol("panic", format!("inflate() panicked: {}", p), path);
                s.bad = true;
                return false;
            }
        };
        s.calls += 1;
        let code = mzres_code(&r.status);
        macro_rules! fail {
            ($site:expr, $($arg:tt)*) => {{
                self.viol($site, format!($($arg)*), path);
                s.bad = true;
                return false;
            }};
        }
        // counts never exceed the offered buffers
        if r.bytes_consumed > k || r.bytes_written > room {
            fail!("counts", "consumed {} of {} offered, wrote {} of {} room", r.bytes_consumed, k, r.bytes_written, room);
        }
        // delivered bytes are a prefix of the true plaintext
        let end = s.delivered + r.bytes_written;
        if end > c.expected.len() || buf[..r.bytes_written] != c.expected[s.delivered..end] {
            fail!("not-prefix", "delivered bytes {}..{} are not a prefix of the plaintext ({} bytes)", s.delivered, end, c.expected.len());
        }
        let was_ended = s.ended;
        let (ip0, del0) = (s.ip, s.delivered);
        s.ip += r.bytes_consumed;
        s.delivered = end;
        let progressed = r.bytes_consumed > 0 || r.bytes_written > 0;
        // Full flush: stream error, always, before anything else
        if flush == MZFlush::Full {
            self.count("full_flush_calls");
            if code != -2 || progressed {
                fail!("full-flush", "MZFlush::Full answered {} (consumed {}, wrote {})", mzres_name(&r.status), r.bytes_consumed, r.bytes_written);
            }
            s.idle += 1;
            return true;
        }
        s.any_real_call = true;
        // sticky errors
        if s.data_err {
            self.count("sticky_data_checks");
            if code != -3 || progressed {
                fail!("data-not-sticky", "after a data error the call answered {} (consumed {}, wrote {})", mzres_name(&r.status), r.bytes_consumed, r.bytes_written);
            }
            s.idle += 1;
            return true;
        }
        if s.buf_sticky {
            if code != -5 || progressed {
                fail!("finish-truncated-not-sticky", "after Finish on a truncated stream the call answered {}", mzres_name(&r.status));
            }
            s.idle += 1;
            return true;
        }
        // non-Finish after Finish: stream error (even after StreamEnd)
        if s.finish_seen && flush != MZFlush::Finish {
            self.count("non_finish_after_finish");
            if code != -2 || progressed {
                fail!("non-finish-after-finish", "{:?} after Finish answered {}", flush as i32, mzres_name(&r.status));
            }
            s.idle += 1;
            return true;
        }
        if flush == MZFlush::Finish {
            s.finish_seen = true;
        }
        // stable after StreamEnd
        if was_ended {
            self.count("after_end_calls");
            if code != 1 || progressed {
                fail!("end-not-stable", "call after StreamEnd answered {} (consumed {}, wrote {})", mzres_name(&r.status), r.bytes_consumed, r.bytes_written);
            }
            s.idle += 1;
            return true;
        }
        if c.kind == Kind::Truncated && flush == MZFlush::Finish && ip0 + k == c.data.len() && room > 0 && !progressed && code != -5 && code != -2 {
            fail!("finish-on-truncated", "Finish on a truncated stream (everything offered, room left) answered {}", mzres_name(&r.status));
        }
        let complete_now = matches!(c.kind, Kind::Valid | Kind::Trailing) && s.delivered == c.expected.len() && s.ip == c.stream_len;
        match code {
            1 => {
                // StreamEnd exactly when all plaintext is delivered and the last stream byte consumed
                self.count("stream_end");
                if !matches!(c.kind, Kind::Valid | Kind::Trailing) {
                    fail!("stream-end-on-bad-stream", "StreamEnd on a {:?} stream ({} bytes delivered, {} consumed)", c.kind, s.delivered, s.ip);
                }
                if !complete_now {
                    fail!("stream-end-early", "StreamEnd with {} of {} bytes delivered and {} of {} stream bytes consumed", s.delivered, c.expected.len(), s.ip, c.stream_len);
                }
                s.ended = true;
            }
            0 => {
                if complete_now && !(first_call && flush == MZFlush::Finish) {
                    // everything delivered and consumed, yet plain Ok: only legal while the decoder
                    // still holds undecoded bits of the last byte; the next call must then end
                    self.count("ok_at_completion");
                }
                if k > 0 && room > 0 && !progressed {
                    fail!("no-progress", "Ok with non-empty input ({}) and output ({}) but nothing consumed or written", k, room);
                }
            }
            -3 => {
                self.count("data_errors");
                if c.kind == Kind::Valid || c.kind == Kind::Truncated || (c.kind == Kind::Trailing && !s.first_finish_short) {
                    if !s.first_finish_short {
                        fail!("data-error-on-good-stream", "Data error on a {:?} stream at in {} out {}", c.kind, ip0, del0);
                    }
                }
                s.data_err = true;
            }
            -5 => {
                self.count("buf_errors");
                if flush != MZFlush::Finish {
                    // a buffer error on a non-Finish call means "starved for input": legal only
                    // when no input was offered; it is recoverable (checked on the following calls)
                    if k > 0 {
                        fail!("spurious-buf", "Buf on a non-Finish call that offered {} input bytes (room {})", k, room);
                    }
                    s.starved = true;
                } else {
                    let input_complete = matches!(c.kind, Kind::Valid | Kind::Trailing) && ip0 + k >= c.stream_len;
                    // neither side is starved when the whole stream is on offer and the room holds all the
                    // plaintext still to come (an exact fit included): Buf is not an answer then
                    let room_enough = room >= c.expected.len() - del0;
                    if input_complete && room_enough {
                        fail!("finish-buf-with-room", "Finish with the whole stream offered and room for all {} remaining plaintext bytes ({} bytes of room, {} written) answered Buf", c.expected.len() - del0, room, r.bytes_written);
                    }
                    // aftermath, probed on a clone: sticky Buf (starved under Finish), sticky Data
                    // (first-call Finish is documented to fail regardless), or retryable
                    let mut probe = s.st.clone();
                    let mut big = vec![0u8; c.expected.len() + 64];
                    let pr = match guarded(|| inflate(&mut probe, &c.data[s.ip..], &mut big, MZFlush::Finish)) {
                        Ok(r) => r,
                        Err(p) => fail!("panic", "inflate() panicked on a Finish call after Buf: {}", p),
                    };
                    match mzres_code(&pr.status) {
                        -5 if pr.bytes_consumed == 0 && pr.bytes_written == 0 => {
                            if input_complete {
                                fail!("finish-buf-sticky-unjustified", "Buf under Finish became permanent although the whole stream had been offered");
                            }
                            self.count("finish_on_truncated_sticky");
                            s.buf_sticky = true;
                        }
                        -3 => {
                            if !(first_call || c.kind == Kind::Corrupt) {
                                fail!("finish-buf-then-data", "Buf under Finish on a {:?} stream turned into a permanent Data error", c.kind);
                            }
                            s.first_finish_short = true;
                            s.data_err = true;
                        }
                        _ => {}
                    }
                }
            }
            other => fail!("unexpected-status", "unexpected result {} ({})", other, mzres_name(&r.status)),
        }
        // a starved Buf is recoverable: once input and room are offered on a non-Finish call the
        // wrapper must move again (or report the stream's own error)
        if s.starved && code != -5 {
            s.starved = false;
        }
        s.idle = if progressed { 0 } else { s.idle + 1 };
        true
    }

    fn fingerprint(&self, s: &St) -> Option<u128> {
        if !HOOKS {
            return None;
        }
        let mut h = H128::new();
        inf_fp(&s.st, &mut h);
        h.write_usize(s.ip);
        h.write_usize(s.delivered);
        h.write_u8(s.finish_seen as u8 | (s.ended as u8) << 1 | (s.data_err as u8) << 2 | (s.buf_sticky as u8) << 3 | (s.first_finish_short as u8) << 4 | (s.calls.min(1) as u8) << 5);
        h.write_u8(s.idle | (s.any_real_call as u8) << 4);
        Some(h.finish128())
    }

    fn terminal(&self, s: &St) -> bool {
        s.bad || (s.idle >= 3)
    }

    fn at_end(&self, s: &St, path: &[Act]) {
        if s.bad {
            return;
        }
        // liveness from this (reachable) state for valid streams, if the usual None-loop is still legal
        if self.liveness && matches!(self.c.kind, Kind::Valid | Kind::Trailing) && !s.finish_seen && !s.data_err && !s.buf_sticky && !s.ended {
            let long_plain = self.c.data.len() + self.c.expected.len() > 20_000;
            for (chunk, room) in [(usize::MAX, LARGE), (1usize, 1usize), (3, 7)] {
                if (chunk == 1) && long_plain {
                    continue;
                }
                self.liveness_from(s, path, chunk, room);
            }
            if long_plain && self.c.data.len() <= 2000 {
                // long plaintext from a short stream: byte-wise input (so every stream byte, the
                // trailer bytes included, arrives in its own call) and window-sized output steps
                self.liveness_from(s, path, 1, LARGE);
                self.liveness_from(s, path, usize::MAX, 1000);
            }
        }
    }

    fn complete(&self, _s: &mut St, _path: &mut Vec<Act>) {
        // the depth bound cuts here; liveness is evaluated by at_end from the cut state
    }
}

/// A short valid stream whose plaintext has exactly `n` bytes ("ab" + distance-2 matches).
pub fn exact_len_stream(n: usize, zlib: Option<(u8, u8)>) -> GenStream {
    use crate::refmodel::Token;
    let mut b = crate::gen::StreamBuilder::new(zlib);
    b.stored(b"ab", false);
    let mut toks = vec![];
    let mut left = n - 2;
    while left >= 258 + 3 || left == 258 {
        toks.push(Token::Match { len: 258, dist: 2 });
        left -= 258;
    }
    if left > 258 {
        toks.push(Token::Match { len: 200, dist: 2 });
        left -= 200;
    }
    if left >= 3 {
        toks.push(Token::Match { len: left as u16, dist: 2 });
        left = 0;
    }
    for _ in 0..left {
        toks.push(Token::Lit(b'q'));
    }
    b.fixed(&toks, true);
    b.finish()
}

pub fn cases(th: bool) -> Vec<Case> {
    let mut v = vec![];
    let mut valid: Vec<GenStream> = vec![];
    let cc = corpus::compact_corpus(true);
    // a spread of kinds: fixed/dynamic/stored, raw and zlib
    for s in cc.iter().step_by(cc.len() / (if th { 20 } else { 9 }) + 1) {
        valid.push(s.clone());
    }
    for s in corpus::produced_corpus().into_iter().filter(|s| s.bytes.len() < 200 && s.plain.len() > 20).step_by(if th { 9 } else { 25 }) {
        valid.push(s);
    }
    // plaintext > 32 KiB: dict_ofs wraps, dict_avail hand-off
    valid.push(streams::stored_edges(Some((7, 2))).into_iter().last().unwrap());
    let mut b = crate::gen::StreamBuilder::new(None);
    let z: Vec<u8> = (0..33000usize).map(|i| (i % 251) as u8).collect();
    b.stored(&z, false).fixed(&[crate::refmodel::Token::Lit(b'x'), crate::refmodel::Token::Match { len: 258, dist: 32768 }], true);
    valid.push(b.finish());
    // plaintext lengths around the window size and its multiples (the wrapper hands its 32 KiB
    // window out in pieces: the hand-off with the window exactly full, one short, one over), from
    // short match-heavy streams so that full-depth schedules reach the end of the stream
    for n in [32767usize, 32768, 32769, 65536, 65537] {
        for zl in [None, Some((7u8, 2u8))] {
            valid.push(exact_len_stream(n, zl));
        }
    }
    // a stored block right after a short-code Huffman block, at the end of the first window
    for st in streams::short_code_then_stored_at_window_end(None).into_iter().step_by(if th { 3 } else { 7 }) {
        valid.push(st);
    }
    for s in &valid {
        let fmts: Vec<DataFormat> = if s.zlib { vec![DataFormat::Zlib, DataFormat::ZLibIgnoreChecksum] } else { vec![DataFormat::Raw] };
        for fmt in fmts {
            v.push(Case { data: s.bytes.clone(), fmt, kind: Kind::Valid, expected: s.plain.clone(), stream_len: s.bytes.len(), desc: s.desc.clone(), history: 0 });
            if s.bytes.len() < 400 {
                // trailing bytes
                let mut d = s.bytes.clone();
                d.extend_from_slice(&[0x00, 0xff, 0x78]);
                v.push(Case { data: d, fmt, kind: Kind::Trailing, expected: s.plain.clone(), stream_len: s.bytes.len(), desc: format!("{}+3 trailing", s.desc), history: 0 });
                // truncations at every byte (quick: a spread)
                let n = s.bytes.len();
                let step = if th { 1 } else { (n / 4).max(1) };
                for cut in (0..n).step_by(step).chain(if n > 1 { Some(n - 1) } else { None }) {
                    v.push(Case { data: s.bytes[..cut].to_vec(), fmt, kind: Kind::Truncated, expected: s.plain.clone(), stream_len: usize::MAX, desc: format!("{} truncated at {}", s.desc, cut), history: 0 });
                }
                // corrupt mutants the reference rejects outright
                let mut made = 0;
                for bit in (0..n * 8).step_by(if th { 5 } else { 11 }) {
                    let mut m = s.bytes.clone();
                    m[bit / 8] ^= 1 << (bit % 8);
                    let mut o = Opts::fmt(s.zlib);
                    o.check_adler = fmt == DataFormat::Zlib;
                    let t = ref_inflate(&m, &o);
                    // the wrapper decodes into its zeroed 32 KiB ring (or, for a first-call Finish,
                    // into the caller's flat buffer): keep mutants invalid under both memory models
                    let mut o2 = o.clone();
                    o2.mem = crate::refmodel::Mem::Ring { contents: vec![0; 32768], start: 0 };
                    let t2 = ref_inflate(&m, &o2);
                    if matches!(t.verdict, Verdict::Invalid(_)) && matches!(t2.verdict, Verdict::Invalid(_)) {
                        // plaintext reference for the prefix rule: what the low-level decoder emits before failing
                        let f = if s.zlib { F_ZLIB } else { 0 } | if fmt == DataFormat::ZLibIgnoreChecksum { F_IGN } else { 0 };
                        let low = run_const(&m, Mode::Ring, 32768, f, usize::MAX, usize::MAX, 0);
                        v.push(Case { data: m, fmt, kind: Kind::Corrupt, expected: low.out, stream_len: usize::MAX, desc: format!("{} bit {} flipped", s.desc, bit), history: 0 });
                        made += 1;
                        if made >= (if th { 8 } else { 3 }) {
                            break;
                        }
                    }
                }
            }
        }
    }
    // states with a history: the first fixed-, dynamic- and stored-block streams of the list on an
    // object that decoded a dynamic stream and then a stream rejected at its block header
    // (each out-of-range HLIT / HDIST field combination), reset either way
    let mut picked: Vec<&GenStream> = vec![];
    for bt in [1u8, 2, 0] {
        if let Some(s) = valid.iter().find(|s| !s.zlib && s.bytes.len() < 400 && crate::refmodel::ref_inflate(&s.bytes, &crate::refmodel::Opts::raw()).blocks.first().map(|b| b.btype) == Some(bt)) {
            picked.push(s);
        }
    }
    let hello = GenStream { bytes: miniz_oxide::deflate::compress_to_vec(b"Hello, hello, hello!", 6), plain: b"Hello, hello, hello!".to_vec(), deflate_bits: 0, zlib: false, desc: "crate-produced short text (one fixed block)".into(), nblocks: 0, block_starts: vec![], block_out_starts: vec![] };
    picked.push(&hello);
    for s in picked {
        for k in 0..crate::drv::DEEP_HISTORIES.len() {
            for min in 0..2u8 {
                v.push(Case { data: s.bytes.clone(), fmt: DataFormat::Raw, kind: Kind::Valid, expected: s.plain.clone(), stream_len: s.bytes.len(), desc: format!("{} on a state with history {:?}{}", s.desc, crate::drv::DEEP_HISTORIES[k], if min == 1 { " (MinReset)" } else { "" }), history: 1 + 2 * k as u8 + min });
            }
        }
    }
    v
}

pub fn run(tier: &str) -> i32 {
    let rep = Report::new("C13", tier, "model_checking");
    let th = rep.thorough();
    let cs = cases(th);
    // thorough: depth 4 (82^4 = 45 M sequences per case) on every 12th case, depth 3 on all
    let full_depth = 3;
    let deep_every = if th { 12 } else { usize::MAX };
    let dedup_depth = if th { 12 } else { 7 };
    let res = par_for(cs.len() * 2, || (Stats::default(), BTreeMap::<&'static str, u64>::new()), |ix, acc| {
        let c = &cs[ix / 2];
        let big = c.data.len() > 1000 || c.expected.len() > 20_000;
        watchdog::tick(ix as u64, 0);
        let m = InfModel { c, rep: &rep, cov: Mutex::new(BTreeMap::new()), liveness: true };
        let mut d = if ix % 2 == 0 {
            // full depth, no dedup
            Dfs::new(&m, false, if big { 2 } else if (ix / 2) % deep_every == 0 { full_depth + 1 } else { full_depth }, u64::MAX)
        } else {
            if !HOOKS {
                return;
            }
            Dfs::new(&m, true, if big { 3 } else { dedup_depth }, if th { 3_000_000 } else { 300_000 })
        };
        d.run(m.init());
        acc.0.merge(&d.stats);
        for (k, v) in m.cov.lock().unwrap().iter() {
            *acc.1.entry(k).or_insert(0) += v;
        }
    });
    let mut total = Stats::default();
    let mut cov: BTreeMap<&'static str, u64> = BTreeMap::new();
    for (s, c) in res {
        total.merge(&s);
        for (k, v) in c {
            *cov.entry(k).or_insert(0) += v;
        }
    }
    let kinds = |k: Kind| cs.iter().filter(|c| c.kind == k).count();
    rep.set("states", json!(total.states));
    rep.set("transitions", json!(total.transitions));
    rep.set("traces_validated_against_impl", json!(total.executions));
    rep.set("dedup_hits", json!(total.dedup_hits));
    rep.set("capped", json!(total.capped));
    rep.set("full_depth_completed", json!(full_depth));
    rep.set("full_depth_plus_one_on_every_nth_case", json!(if th { 12 } else { 0 }));
    rep.set("dedup_depth_completed", json!(if HOOKS { dedup_depth } else { 0 }));
    rep.set("cases", json!({"valid": kinds(Kind::Valid), "truncated": kinds(Kind::Truncated), "corrupt": kinds(Kind::Corrupt), "trailing": kinds(Kind::Trailing)}));
    rep.set("protocol_events", json!(cov));
    rep.set("explanation", json!("alphabet = chunk {0,1,2,rest} x room {0,1,3,exact fit,large} x flush {None,Sync,Finish,Full} (64-80 actions) plus reset(format) / reset_as(MinReset) (the stream is offered again from its first byte and the model starts over) on the real InflateState (fork = Clone); every action sequence to the full depth without dedup, deeper with complete-state fingerprint dedup; every transition is judged by the protocol model (counts, prefix, Full => Stream error first, sticky Data, non-Finish after Finish, StreamEnd exactness and stability, progress, recoverable starvation, sticky Buf after Finish on a truncated stream); at every cut/terminal state of a valid stream that is still in the legal None-loop regime the usual driver loop is run under 3 constant schedules and must end with the whole plaintext within len(in)+len(out)+8 calls"));
    rep.sample(json!({"case": cs[0].desc, "schedule": [[1, 3, "None"], [0, 0, "Finish"], [-1, 131072, "Finish"]], "meaning": "[input bytes offered (-1 = rest), output room, flush] per call"}));
    rep.sample(json!({"case": cs[cs.len() / 2].desc, "fmt": fmt_name(cs[cs.len() / 2].fmt)}));
    let g = |k: &str| cov.get(k).copied().unwrap_or(0);
    if total.transitions < 100_000 || g("stream_end") == 0 || g("sticky_data_checks") == 0 || g("liveness_runs") == 0 || g("after_end_calls") == 0 {
        println!("MACHINERY vacuous: transitions={} events={:?}", total.transitions, cov);
        rep.finish();
        return 2;
    }
    rep.finish()
}

pub fn replay(v: &Value) -> Option<String> {
    let fmt = match v["fmt"].as_str()? {
        "Raw" => DataFormat::Raw,
        "Zlib" => DataFormat::Zlib,
        _ => DataFormat::ZLibIgnoreChecksum,
    };
    let kind = match v["kind"].as_str()? {
        "Valid" => Kind::Valid,
        "Truncated" => Kind::Truncated,
        "Corrupt" => Kind::Corrupt,
        _ => Kind::Trailing,
    };
    let data = unhex(v["stream_hex"].as_str()?);
    let expected = match v["expected_hex"].as_str() {
        Some(h) => unhex(h),
        None => ref_inflate(&data, &Opts::fmt(fmt != DataFormat::Raw)).out,
    };
    let c = Case { data, fmt, kind, expected, stream_len: v["stream_len"].as_u64().unwrap_or(u64::MAX) as usize, desc: v["desc"].as_str().unwrap_or("").into(), history: v["history"].as_u64().unwrap_or(0) as u8 };
    let rep = Report::new("C13", "quick", "model_checking");
    let m = InfModel { c: &c, rep: &rep, cov: Mutex::new(BTreeMap::new()), liveness: true };
    let mut s = m.init();
    let mut path = vec![];
    for a in v["schedule"].as_array()? {
        let k = a[0].as_i64()?;
        let act = Act { k: if k < 0 { u32::MAX } else { k as u32 }, room: a[1].as_u64()? as u32, flush: a[2].as_u64()? as u8 };
        path.push(act);
        if !m.step(&mut s, act, &path) {
            break;
        }
    }
    m.at_end(&s, &path);
    if rep.violation_count() > 0 {
        Some(format!("{} violation(s) replaying {} calls", rep.violation_count(), path.len()))
    } else {
        None
    }
}
