//! C18: reset restores fresh behaviour after any history; results are deterministic.
//! "Start from non-initial states": bounded histories on the real objects (abandoned streams,
//! pending output, flushes, failed and error states), then each reset, then probes that differ
//! from the history's data, compared call by call with a freshly constructed object.
use crate::capi::{self, Place};
use crate::drv::*;
use crate::evidence::Report;
use crate::gen::{GenStream, Seg, StreamBuilder};
use crate::props::c01::Cfg;
use crate::refmodel::Token;
use crate::util::{hex, par_for};
use crate::{corpus, guarded, watchdog};
use miniz_oxide::deflate::core::{compress, CompressorOxide, TDEFLFlush};
use miniz_oxide::inflate::core::{decompress, DecompressorOxide};
use miniz_oxide::inflate::stream::{inflate, FullReset, InflateState, MinReset, ZeroReset};
use miniz_oxide::{DataFormat, MZFlush};
use serde_json::{json, Value};

// ---------------------------------------------------------------------------------------
// compressor
// ---------------------------------------------------------------------------------------

#[derive(Clone, Debug)]
pub struct CHist {
    pub input: usize,
    /// (bytes offered, capacity, flush) calls; input advances by what was consumed
    pub calls: Vec<(usize, usize, u8)>,
}

const FLS: [TDEFLFlush; 5] = [TDEFLFlush::None, TDEFLFlush::Sync, TDEFLFlush::Full, TDEFLFlush::Finish, TDEFLFlush::Partial];

fn comp_histories(n_inputs: usize, lens: &[usize]) -> Vec<CHist> {
    let mut v = vec![CHist { input: 0, calls: vec![] }];
    // histories that never consume a byte yet change the object: a flush or Finish on empty input
    // (header, markers or a whole empty stream emitted, fully or partly drained)
    for f in 1..=4u8 {
        v.push(CHist { input: 0, calls: vec![(0, 200_000, f)] });
        v.push(CHist { input: 0, calls: vec![(0, 3, f)] });
        v.push(CHist { input: 0, calls: vec![(0, 200_000, 1), (0, 200_000, f)] });
    }
    for i in 0..n_inputs {
        let n = lens[i];
        for &k in &[1usize, 10, 258, 300, 5000, 40000, usize::MAX] {
            let k = k.min(n);
            for f in [0u8, 1, 2, 4] {
                v.push(CHist { input: i, calls: vec![(k, 200_000, f)] });
            }
            v.push(CHist { input: i, calls: vec![(k, 5, 0), (0, 5, 1)] });
        }
        v.push(CHist { input: i, calls: vec![(n, 400_000, 3)] }); // finished stream
        v.push(CHist { input: i, calls: vec![(n, 5, 3)] }); // Finish with pending output
        v.push(CHist { input: i, calls: vec![(n / 2, 200_000, 3), (0, 100, 0)] }); // misuse: None after Finish
        v.push(CHist { input: i, calls: vec![(n / 3, 64, 2), (n / 3, 64, 0), (n, 64, 3)] });
    }
    v
}

fn run_comp_history(c: &mut CompressorOxide, input: &[u8], h: &CHist) {
    let mut ip = 0;
    for &(k, cap, f) in &h.calls {
        let k = k.min(input.len() - ip);
        let mut out = vec![0u8; cap];
        let (_, ni, _) = compress(c, &input[ip..ip + k], &mut out, FLS[f as usize]);
        ip += ni.min(k);
    }
}

/// Probe: compress `data` under a fixed schedule, return the per-call observations.
/// chunk sentinel: the probe changes the level in mid-stream (level 0 for the first 100 bytes with
/// flush None, then level 6 for the rest) - documented as unsupported in general, but whatever it
/// does, it must do the same on a reset object and on a new one
const LEVEL_SWITCH: usize = usize::MAX - 1;

fn comp_probe(c: &mut CompressorOxide, data: &[u8], chunk: usize, cap: usize) -> Vec<(i32, usize, usize, Vec<u8>)> {
    if chunk == LEVEL_SWITCH {
        let r = guarded(|| {
            let mut obs = vec![];
            c.set_compression_level_raw(0);
            let k = data.len().min(100);
            let mut out = vec![0u8; cap];
            let (st, ni, no) = compress(c, &data[..k], &mut out, TDEFLFlush::None);
            out.truncate(no.min(cap));
            obs.push((st as i32, ni, no, out));
            c.set_compression_level_raw(6);
            let mut ip = ni.min(k);
            for _ in 0..10_000 {
                let mut out = vec![0u8; cap];
                let (st, ni, no) = compress(c, &data[ip..], &mut out, TDEFLFlush::Finish);
                out.truncate(no.min(cap));
                obs.push((st as i32, ni, no, out));
                ip += ni.min(data.len() - ip);
                if st as i32 != 0 {
                    break;
                }
            }
            obs
        });
        return r.unwrap_or_else(|_| vec![(-99, 0, 0, vec![])]);
    }
    let mut obs = vec![];
    let mut ip = 0;
    let mut calls = 0;
    loop {
        let k = chunk.min(data.len() - ip);
        let fl = if ip + k == data.len() { TDEFLFlush::Finish } else { TDEFLFlush::None };
        let mut out = vec![0u8; cap];
        let (st, ni, no) = compress(c, &data[ip..ip + k], &mut out, fl);
        out.truncate(no.min(cap));
        obs.push((st as i32, ni, no, out));
        ip += ni.min(k);
        calls += 1;
        if st as i32 != 0 || calls > 200_000 {
            break;
        }
    }
    obs
}

// ---------------------------------------------------------------------------------------
// streaming inflater
// ---------------------------------------------------------------------------------------

#[derive(Clone, Debug)]
pub struct IHist {
    pub stream: usize,
    pub fmt: u8,
    /// (bytes offered, room, flush index into [None, Sync, Finish, Full])
    pub calls: Vec<(usize, usize, u8)>,
}

const IFL: [MZFlush; 4] = [MZFlush::None, MZFlush::Sync, MZFlush::Finish, MZFlush::Full];
const FMTS: [DataFormat; 3] = [DataFormat::Raw, DataFormat::Zlib, DataFormat::ZLibIgnoreChecksum];

fn run_inf_history(st: &mut InflateState, data: &[u8], h: &IHist) {
    let mut ip = 0;
    for &(k, room, f) in &h.calls {
        let k = k.min(data.len() - ip);
        let mut out = vec![0u8; room];
        let r = inflate(st, &data[ip..ip + k], &mut out, IFL[f as usize]);
        ip += r.bytes_consumed.min(k);
    }
}

fn inf_probe(st: &mut InflateState, data: &[u8], chunk: usize, room: usize, finish: bool) -> Vec<(i32, usize, usize, Vec<u8>)> {
    let mut obs = vec![];
    let mut ip = 0;
    for _ in 0..100_000 {
        watchdog::pulse();
        let k = chunk.min(data.len() - ip);
        let mut out = vec![0u8; room];
        let r = inflate(st, &data[ip..ip + k], &mut out, if finish { MZFlush::Finish } else { MZFlush::None });
        out.truncate(r.bytes_written.min(room));
        let code = mzres_code(&r.status);
        obs.push((code, r.bytes_consumed, r.bytes_written, out));
        ip += r.bytes_consumed.min(k);
        if code != 0 || (r.bytes_consumed == 0 && r.bytes_written == 0) {
            break;
        }
    }
    obs
}

/// Raw stream whose only match reaches before its own start (legal in the wrapper's ring mode).
fn before_start_probe() -> GenStream {
    let mut b = StreamBuilder::new(None);
    b.pre_window_zero = true;
    b.fixed(&[Token::Match { len: 3, dist: 32763 }, Token::Lit(b'!')], true);
    let mut s = b.finish();
    s.desc = "before-start-reference".into();
    s
}

/// A stream that copies the *whole* window preceding its own start to the output (126 + 2 matches
/// at distance 32768): whatever a reset left anywhere in the 32 KiB window becomes visible.
pub fn before_start_window_dump() -> GenStream {
    let mut b = StreamBuilder::new(None);
    b.pre_window_zero = true;
    let mut t: Vec<Token> = (0..126).map(|_| Token::Match { len: 258, dist: 32768 }).collect();
    t.push(Token::Match { len: 130, dist: 32768 });
    t.push(Token::Match { len: 130, dist: 32768 });
    b.fixed(&t, true);
    let mut s = b.finish();
    s.desc = "before-start-window-dump".into();
    s
}

// ---------------------------------------------------------------------------------------

pub fn run(tier: &str) -> i32 {
    capi::install_fault_handler("C18");
    let rep = Report::new("C18", tier, "model_checking");
    let th = rep.thorough();
    let mut states = 0u64;
    let mut transitions = 0u64;
    // ---- (a) CompressorOxide::reset and (d) mz_deflateReset ------------------------------------------
    let mut ins: Vec<corpus::Input> = vec![corpus::Input { name: "hello".into(), data: b"Hello zlib! Hello zlib!".to_vec() }];
    ins.push(corpus::medium_inputs().remove(0));
    ins.push(corpus::shape_named("R66000", &[(Seg::R, 66000)]));
    ins.push(corpus::shape_named("T70000", &[(Seg::T, 70000)]));
    let lens: Vec<usize> = ins.iter().map(|i| i.data.len()).collect();
    let hists = comp_histories(ins.len(), &lens);
    let probes: Vec<corpus::Input> = vec![
        corpus::Input { name: "probe:text".into(), data: b"Reset probe, reset probe, reset probe! 0123456789 0123456789".to_vec() },
        corpus::Input { name: "probe:zeros300".into(), data: vec![0; 300] },
        corpus::shape_named("probe:T5000", &[(Seg::T, 5000)]),
        corpus::shape_named("probe:P7x40000+R30000", &[(Seg::P(7), 40000), (Seg::R, 30000)]),
    ];
    let mut cfgs = crate::props::c02::explore_cfgs(th);
    // "the same settings" includes the window: configurations below 15 window bits, raw and zlib
    for (level, strat, zlib, wbits) in [(6u8, 0u8, true, 12u8), (6, 0, false, 12), (9, 0, true, 9), (1, 0, true, 14), (4, 1, false, 13)] {
        if !cfgs.iter().any(|c| c.level == level && c.strat == strat && c.zlib == zlib && c.wbits == wbits) {
            cfgs.push(Cfg { level, strat, zlib, wbits, ctor: 0 });
        }
    }
    let mut items = vec![];
    for h in 0..hists.len() {
        for c in 0..cfgs.len() {
            if !th && (h + c) % 3 != 0 {
                continue;
            }
            items.push((h, c));
        }
    }
    let res = par_for(items.len(), || (0u64, 0u64), |ix, acc| {
        watchdog::tick(ix as u64, 0);
        let (hi, ci) = items[ix];
        let h = &hists[hi];
        let cfg: Cfg = cfgs[ci];
        let r = guarded(|| {
            let mut used = cfg.make();
            run_comp_history(&mut used, &ins[h.input].data, h);
            used.reset();
            // determinism: the same history + reset on a second fresh object
            let mut used2 = cfg.make();
            run_comp_history(&mut used2, &ins[h.input].data, h);
            used2.reset();
            let mut out = vec![];
            for (pi, p) in probes.iter().enumerate() {
                for (chunk, cap) in [(usize::MAX, 400_000usize), (100, 64), (LEVEL_SWITCH, 400_000)] {
                    if p.data.len() > 10_000 && chunk == 100 {
                        continue;
                    }
                    let mut fresh = cfg.make();
                    let want = comp_probe(&mut fresh, &p.data, chunk, cap);
                    let mut u = used.clone();
                    let got = comp_probe(&mut u, &p.data, chunk, cap);
                    let mut u2 = used2.clone();
                    let got2 = comp_probe(&mut u2, &p.data, chunk, cap);
                    out.push((pi, chunk, cap, want == got, got == got2, want.len()));
                }
            }
            out
        });
        match r {
            Err(p) => rep.violation("C18/compressor/panic", format!("panic {}", p), json!({"kind": "comp", "hist": format!("{:?}", h), "cfg": cfg.to_json()})),
            Ok(out) => {
                for (pi, chunk, cap, same, det, calls) in out {
                    acc.0 += 1;
                    acc.1 += calls as u64 * 3;
                    if !same {
                        rep.violation(
                            "C18/CompressorOxide/reset/output-differs",
                            format!("after history {:?} on {} and reset(), probe {} (chunk {}, cap {}) differs from a fresh {}", h.calls, ins[h.input].name, probes[pi].name, chunk as isize, cap, cfg.name()),
                            json!({"kind": "comp", "hist_input": ins[h.input].name, "hist_calls": h.calls, "cfg": cfg.to_json(), "probe": probes[pi].name, "chunk": chunk.min(1 << 40), "level_switch": chunk == LEVEL_SWITCH, "cap": cap}),
                        );
                    }
                    if !det {
                        rep.violation("C18/determinism/compressor", format!("two objects with the same history {:?} + reset give different probe output ({})", h.calls, cfg.name()), json!({"kind": "comp-det", "hist_input": ins[h.input].name, "hist_calls": h.calls, "cfg": cfg.to_json(), "probe": probes[pi].name}));
                    }
                }
            }
        }
    });
    states += res.iter().map(|r| r.0).sum::<u64>();
    transitions += res.iter().map(|r| r.1).sum::<u64>();
    // mz_deflateReset
    let mut c_cases = 0u64;
    for (hi, h) in hists.iter().enumerate() {
        if !th && hi % 4 != 0 && !h.calls.iter().all(|c| c.0 == 0) {
            continue;
        }
        for level in [1, 6] {
            c_cases += 1;
            let r = guarded(|| unsafe {
                let mut zs = capi::new_stream();
                miniz_oxide_c_api::mz_deflateInit(&mut zs, level);
                let data = &ins[h.input].data;
                let mut ip = 0;
                for &(k, cap, f) in &h.calls {
                    let k = k.min(data.len() - ip);
                    if let Ok(o) = capi::stream_call(&mut zs, false, data, ip, k, cap.min(100_000), [0, 2, 3, 4, 1][f as usize], Place::End) {
                        ip += o.consumed;
                    }
                }
                let rc = miniz_oxide_c_api::mz_deflateReset(&mut zs);
                let mut fresh = capi::new_stream();
                miniz_oxide_c_api::mz_deflateInit(&mut fresh, level);
                let p = &probes[0].data;
                let a = capi::stream_call(&mut zs, false, p, 0, p.len(), 4096, 4, Place::End);
                let b = capi::stream_call(&mut fresh, false, p, 0, p.len(), 4096, 4, Place::End);
                let (ti, to) = (zs.total_in, zs.total_out);
                miniz_oxide_c_api::mz_deflateEnd(&mut zs);
                miniz_oxide_c_api::mz_deflateEnd(&mut fresh);
                (rc, a, b, ti, to)
            });
            match r {
                Err(p) => rep.violation("C18/mz_deflateReset/panic", format!("panic {}", p), json!({"kind": "c-reset", "hist": hi, "level": level})),
                Ok((rc, a, b, ti, to)) => {
                    let same = match (&a, &b) {
                        (Ok(x), Ok(y)) => x.ret == y.ret && x.out == y.out && x.consumed == y.consumed && x.adler == y.adler && ti == x.consumed as u64 as libc::c_ulong && to == x.written as libc::c_ulong,
                        _ => false,
                    };
                    if rc != 0 || !same {
                        rep.violation("C18/mz_deflateReset/differs", format!("after history {:?} on {} and mz_deflateReset (rc {}), the stream does not behave like a fresh one (level {})", h.calls, ins[h.input].name, rc, level), json!({"kind": "c-reset", "hist": hi, "level": level}));
                    }
                }
            }
        }
    }
    states += c_cases;
    // ---- (b) InflateState resets --------------------------------------------------------------------
    let mut streams: Vec<GenStream> = vec![];
    {
        let cc = corpus::compact_corpus(true);
        streams.push(cc.iter().find(|s| !s.zlib && s.plain.len() > 8).unwrap().clone());
        streams.push(cc.iter().find(|s| s.zlib && s.plain.len() > 8).unwrap().clone());
        let a: Vec<u8> = std::iter::repeat(b'A').take(40000).collect();
        for z in [false, true] {
            let c = if z { miniz_oxide::deflate::compress_to_vec_zlib(&a, 6) } else { miniz_oxide::deflate::compress_to_vec(&a, 6) };
            streams.push(GenStream { bytes: c, plain: a.clone(), deflate_bits: 0, zlib: z, desc: format!("A x 40000 zlib={}", z), nblocks: 0, block_starts: vec![], block_out_starts: vec![] });
        }
        // corrupt and truncated variants as histories
        let mut bad = streams[1].clone();
        let l = bad.bytes.len();
        bad.bytes[l / 2] ^= 0x40;
        bad.desc = "corrupt".into();
        streams.push(bad);
        // every targeted rule violation of C04 (bad header fields, over-subscribed codes, undefined
        // symbols ...) as a failed history: whatever a rejected header left behind must not matter
        for (name, bytes, zlib) in crate::props::c04::targeted_invalid().into_iter().step_by(if th { 1 } else { 2 }) {
            // a valid dynamic block first, so tables from a successfully decoded block are loaded too
            let mut pre = StreamBuilder::new(None);
            let toks = [Token::Lit(b'q'), Token::Lit(b'r'), Token::Match { len: 4, dist: 2 }];
            let spec = crate::gen::dyn_spec_for(&toks, crate::gen::CodeShape::Flat, crate::gen::CodeShape::Flat).unwrap();
            pre.dynamic(&spec, &toks, false);
            let p = pre.finish();
            if !zlib && p.deflate_bits % 8 == 0 {
                let mut both = p.bytes.clone();
                both.extend_from_slice(&bytes);
                streams.push(GenStream { bytes: both, plain: vec![], deflate_bits: 0, zlib, desc: format!("dyn-then-invalid:{}", name), nblocks: 0, block_starts: vec![], block_out_starts: vec![] });
            }
            streams.push(GenStream { bytes, plain: vec![], deflate_bits: 0, zlib, desc: format!("invalid:{}", name), nblocks: 0, block_starts: vec![], block_out_starts: vec![] });
        }
    }
    let n_basic_streams = 5;
    let mut ihists: Vec<IHist> = vec![IHist { stream: 0, fmt: 0, calls: vec![] }];
    // streams abandoned at *every* byte of a dynamic block header that uses many code-length
    // symbols (whatever a half-read header left in the tables must not matter after a reset)
    {
        let text = corpus::shape_named("T", &[(Seg::T, 3000)]).data;
        for z in [false, true] {
            let c = if z { miniz_oxide::deflate::compress_to_vec_zlib(&text, 6) } else { miniz_oxide::deflate::compress_to_vec(&text, 6) };
            streams.push(GenStream { bytes: c, plain: text.clone(), deflate_bits: 0, zlib: z, desc: format!("T3000 level 6 zlib={}", z), nblocks: 0, block_starts: vec![], block_out_starts: vec![] });
            let si = streams.len() - 1;
            let fmt = if z { 1u8 } else { 0 };
            for k in 1..=40usize {
                ihists.push(IHist { stream: si, fmt, calls: vec![(k, 100_000, 0)] });
                // (pushed twice so the quick tier's every-other-history stride keeps each cut)
                ihists.push(IHist { stream: si, fmt, calls: vec![(k, 100_000, 0)] });
            }
        }
    }
    let n_hist_streams = streams.len();
    for si in n_basic_streams..n_hist_streams - 2 {
        let n = streams[si].bytes.len();
        let fmt = if streams[si].zlib { 1u8 } else { 0 };
        ihists.push(IHist { stream: si, fmt, calls: vec![(n, 100_000, 0)] });
        ihists.push(IHist { stream: si, fmt, calls: vec![(n, 100_000, 2)] });
        ihists.push(IHist { stream: si, fmt, calls: vec![(1, 3, 0), (n, 100_000, 0)] });
    }
    for si in 0..n_basic_streams {
        let n = streams[si].bytes.len();
        for fmt in 0..3u8 {
            for &k in &[1usize, n / 2, n.saturating_sub(1), n] {
                for &(room, f) in &[(100_000usize, 0u8), (5, 0), (100_000, 2), (3, 2), (0, 0), (100, 3)] {
                    ihists.push(IHist { stream: si, fmt, calls: vec![(k, room, f)] });
                }
                ihists.push(IHist { stream: si, fmt, calls: vec![(k, 7, 0), (n, 100_000, 2)] });
                ihists.push(IHist { stream: si, fmt, calls: vec![(k, 100_000, 2), (n, 10, 0)] });
            }
        }
    }
    let mut iprobes: Vec<GenStream> = vec![before_start_probe(), before_start_window_dump()];
    {
        let cc = corpus::compact_corpus(true);
        iprobes.push(cc.iter().rev().find(|s| !s.zlib && s.plain.len() > 4).unwrap().clone());
        iprobes.push(cc.iter().rev().find(|s| s.zlib && s.plain.len() > 4).unwrap().clone());
        for (i, kind) in [0u8, 1, 2].iter().enumerate() {
            let mut b = StreamBuilder::new(if i == 1 { Some((7, 2)) } else { None });
            let toks = [Token::Lit(b'x'), Token::Lit(b'y'), Token::Match { len: 5, dist: 2 }, Token::Lit(b'z')];
            match kind {
                0 => {
                    b.fixed(&toks, true);
                }
                1 => {
                    let spec = crate::gen::dyn_spec_for(&toks, crate::gen::CodeShape::ChainDeep(9), crate::gen::CodeShape::Flat).unwrap();
                    b.dynamic(&spec, &toks, true);
                }
                _ => {
                    b.stored(b"stored first", false).fixed(&toks, true);
                }
            }
            let mut s = b.finish();
            s.desc = format!("probe-{}-first", ["fixed", "dynamic", "stored"][i]);
            iprobes.push(s);
        }
        // dynamic blocks whose header sends few code-length-code lengths (HCLEN 5 and 7): entries
        // the header does not send must read as zero
        for (i, zl) in [(0usize, None), (1, Some((7u8, 2u8)))] {
            let mut ll = vec![8u8; 257];
            ll[255] = 0;
            if i == 1 {
                ll[0] = 7;
                ll[1] = 7;
                ll[252] = 9;
                ll[253] = 9;
                ll[254] = 9;
                ll[256] = 9;
            }
            let spec = crate::gen::DynSpec::new(ll, vec![0u8]);
            let toks = [Token::Lit(b'h'), Token::Lit(0), Token::Lit(254), Token::Lit(b'c')];
            let mut b = StreamBuilder::new(zl);
            b.dynamic(&spec, &toks, true);
            let mut s = b.finish();
            s.desc = format!("probe-dynamic-hclen{}", spec.hclen);
            iprobes.push(s);
        }
        let t = corpus::shape_named("T", &[(Seg::T, 50000)]).data;
        iprobes.push(GenStream { bytes: miniz_oxide::deflate::compress_to_vec_zlib(&t, 6), plain: t, deflate_bits: 0, zlib: true, desc: "T50000 zlib".into(), nblocks: 0, block_starts: vec![], block_out_starts: vec![] });
    }
    let resets = ["MinReset", "ZeroReset", "FullReset", "reset"];
    let ires = par_for(ihists.len(), || (0u64, 0u64), |hi, acc| {
        watchdog::tick(hi as u64, 1);
        let h = &ihists[hi];
        for (ri, rname) in resets.iter().enumerate() {
            for (pi, p) in iprobes.iter().enumerate() {
                // quick: every history meets the window probes, every other one the full probe set
                if !th && hi % 2 == 1 && !p.desc.starts_with("before-start") {
                    continue;
                }
                let pf = if p.zlib { DataFormat::Zlib } else { DataFormat::Raw };
                // MinReset / ZeroReset keep the format: probe only with a stream of the history's format
                let hist_fmt = FMTS[h.fmt as usize];
                let keeps_format = ri <= 1;
                if keeps_format && (hist_fmt == DataFormat::Raw) != (pf == DataFormat::Raw) {
                    continue;
                }
                let target_fmt = if keeps_format { hist_fmt } else { pf };
                for (chunk, room, finish) in [(usize::MAX, 100_000usize, false), (1, 1, false), (usize::MAX, 100_000, true), (usize::MAX, 700, false), (1000, 33_000, false)] {
                    if p.bytes.len() > 5000 && chunk == 1 {
                        continue;
                    }
                    acc.0 += 1;
                    let r = guarded(|| {
                        let mut used = InflateState::new_boxed(hist_fmt);
                        run_inf_history(&mut used, &streams[h.stream].bytes, h);
                        match ri {
                            0 => used.reset_as(MinReset),
                            1 => used.reset_as(ZeroReset),
                            2 => used.reset_as(FullReset(target_fmt)),
                            _ => used.reset(target_fmt),
                        }
                        let got = inf_probe(&mut used, &p.bytes, chunk, room, finish);
                        let mut fresh = InflateState::new_boxed(target_fmt);
                        let want = inf_probe(&mut fresh, &p.bytes, chunk, room, finish);
                        (got == want, want.len())
                    });
                    match r {
                        Err(pn) => rep.violation("C18/InflateState/panic", format!("panic {}", pn), json!({"kind": "inf", "hist": hi, "reset": rname, "probe": pi})),
                        Ok((same, calls)) => {
                            acc.1 += calls as u64 * 2;
                            if !same {
                                rep.violation(
                                    &format!("C18/InflateState/{}/probe={}", rname, if p.desc.starts_with("before-start") { "before-start-reference".to_string() } else { format!("stream{}", pi) }),
                                    format!("after history {:?} on [{}] ({:?}) and {}, decoding [{}] (chunk {}, room {}, finish {}) differs from a fresh InflateState", h.calls, streams[h.stream].desc, hist_fmt as i32, rname, p.desc, chunk as isize, room, finish),
                                    json!({"kind": "inf", "hist_stream_hex": if streams[h.stream].bytes.len() < 2000 { json!(hex(&streams[h.stream].bytes)) } else { Value::Null }, "hist_fmt": h.fmt, "hist_calls": h.calls, "reset": rname, "probe_hex": if p.bytes.len() < 2000 { json!(hex(&p.bytes)) } else { Value::Null }, "probe_zlib": p.zlib, "chunk": chunk.min(1 << 40), "room": room, "finish": finish}),
                                );
                            }
                        }
                    }
                }
            }
        }
    });
    states += ires.iter().map(|r| r.0).sum::<u64>();
    transitions += ires.iter().map(|r| r.1).sum::<u64>();
    // ---- (c) DecompressorOxide::init ----------------------------------------------------------------
    let mut dcases = 0u64;
    for h in ihists.iter().step_by(if th { 1 } else { 3 }) {
        let s = &streams[h.stream];
        for p in iprobes.iter().filter(|p| !p.desc.starts_with("before-start")) {
            dcases += 1;
            let r = guarded(|| {
                let mut d = DecompressorOxide::new();
                let mut buf = vec![0u8; 70_000];
                let mut ip = 0;
                let mut op = 0;
                for &(k, room, _) in &h.calls {
                    let k = k.min(s.bytes.len() - ip);
                    let hi = (op + room.min(60_000)).min(buf.len());
                    let (_, c, w) = decompress(&mut d, &s.bytes[ip..ip + k], &mut buf[..hi], op.min(hi), if s.zlib { F_ZLIB } else { 0 } | F_FLAT | F_MORE);
                    ip += c.min(k);
                    op = (op + w).min(hi);
                }
                d.init();
                let mut out = vec![0u8; p.plain.len() + 8];
                let got = decompress(&mut d, &p.bytes, &mut out, 0, if p.zlib { F_ZLIB } else { 0 } | F_FLAT);
                let mut f = DecompressorOxide::new();
                let mut out2 = vec![0u8; p.plain.len() + 8];
                let want = decompress(&mut f, &p.bytes, &mut out2, 0, if p.zlib { F_ZLIB } else { 0 } | F_FLAT);
                (got.0 as i8, got.1, got.2) == (want.0 as i8, want.1, want.2) && out == out2 && d.adler32() == f.adler32()
            });
            match r {
                Err(pn) => rep.violation("C18/DecompressorOxide/panic", format!("panic {}", pn), json!({"kind": "dec-init"})),
                Ok(false) => rep.violation("C18/DecompressorOxide/init/differs", format!("after history {:?} on [{}] and init(), decoding [{}] differs from a fresh decoder", h.calls, s.desc, p.desc), json!({"kind": "dec-init", "hist_calls": h.calls, "hist": s.desc, "probe": p.desc})),
                Ok(true) => {}
            }
        }
    }
    states += dcases;
    transitions += dcases * 3;
    rep.set("states", json!(states));
    rep.set("transitions", json!(transitions));
    rep.set("traces_validated_against_impl", json!(states));
    rep.set("compressor_histories", json!(hists.len()));
    rep.set("inflate_histories", json!(ihists.len()));
    rep.set("reset_variants", json!(["CompressorOxide::reset", "mz_deflateReset", "InflateState::reset_as(MinReset)", "reset_as(ZeroReset)", "reset_as(FullReset(f))", "InflateState::reset(f)", "DecompressorOxide::init"]));
    rep.set("explanation", json!("states = (history, reset variant, probe, probe schedule) tuples executed on the real objects: histories leave the object mid-block, with pending output, after each flush mode, finished, in the misuse-error state, failed (corrupt data) or starved (truncated + Finish); each reset variant is applied and every probe (data different from the history's, incl. a stream whose match reaches before its own start, 50-70 KB inputs that recycle the whole dictionary/hash) is run under 2-3 fixed schedules; the per-call observations (status, counts, bytes) must equal those of a freshly constructed object with the same settings; every compressor history is also executed on a second fresh object (determinism)"));
    rep.sample(json!({"history": {"input": "R66000", "calls": [[40000, 200000, "None"]]}, "reset": "CompressorOxide::reset", "probe": "probe:T5000", "schedule": "one-shot Finish"}));
    rep.sample(json!({"history": {"stream": "corrupt", "calls": [["all", 100000, "Finish"]]}, "reset": "reset_as(MinReset)", "probe": "before-start-reference"}));
    if states < 1000 {
        println!("MACHINERY vacuous: states={}", states);
        rep.finish();
        return 2;
    }
    rep.finish()
}

fn comp_inputs() -> Vec<corpus::Input> {
    let mut ins: Vec<corpus::Input> = vec![corpus::Input { name: "hello".into(), data: b"Hello zlib! Hello zlib!".to_vec() }];
    ins.push(corpus::medium_inputs().remove(0));
    ins.push(corpus::shape_named("R66000", &[(Seg::R, 66000)]));
    ins.push(corpus::shape_named("T70000", &[(Seg::T, 70000)]));
    ins
}

fn comp_probes() -> Vec<corpus::Input> {
    vec![
        corpus::Input { name: "probe:text".into(), data: b"Reset probe, reset probe, reset probe! 0123456789 0123456789".to_vec() },
        corpus::Input { name: "probe:zeros300".into(), data: vec![0; 300] },
        corpus::shape_named("probe:T5000", &[(Seg::T, 5000)]),
        corpus::shape_named("probe:P7x40000+R30000", &[(Seg::P(7), 40000), (Seg::R, 30000)]),
    ]
}

/// Replays one (history, reset, probe) tuple through the plain objects (no sweep).
pub fn replay(v: &Value) -> Option<String> {
    let calls_of = |v: &Value| -> Vec<(usize, usize, u8)> {
        v.as_array().map(|a| a.iter().map(|c| (c[0].as_u64().unwrap_or(0) as usize, c[1].as_u64().unwrap_or(0) as usize, c[2].as_u64().unwrap_or(0) as u8)).collect()).unwrap_or_default()
    };
    let unlim = |x: u64| if x >= 1 << 40 { usize::MAX } else { x as usize };
    match v["kind"].as_str()? {
        "comp" | "comp-det" => {
            let ins = comp_inputs();
            let input = ins.into_iter().find(|i| Some(i.name.as_str()) == v["hist_input"].as_str())?;
            let cfg = Cfg::from_json(&v["cfg"]);
            let h = CHist { input: 0, calls: calls_of(&v["hist_calls"]) };
            let probe = comp_probes().into_iter().find(|p| Some(p.name.as_str()) == v["probe"].as_str())?;
            let (chunk, cap) = (unlim(v["chunk"].as_u64().unwrap_or(u64::MAX)), v["cap"].as_u64().unwrap_or(400_000) as usize);
            let chunk = if v["level_switch"].as_bool().unwrap_or(false) { LEVEL_SWITCH } else { chunk };
            let r = guarded(|| {
                let mut used = cfg.make();
                run_comp_history(&mut used, &input.data, &h);
                used.reset();
                let mut fresh = cfg.make();
                comp_probe(&mut used, &probe.data, chunk, cap) == comp_probe(&mut fresh, &probe.data, chunk, cap)
            });
            match r {
                Ok(true) => None,
                Ok(false) => Some("probe output after history + reset() differs from a fresh compressor".into()),
                Err(p) => Some(format!("panic {}", p)),
            }
        }
        "inf" => {
            let hs = crate::util::unhex(v["hist_stream_hex"].as_str()?);
            let ps = crate::util::unhex(v["probe_hex"].as_str()?);
            let hist_fmt = FMTS[v["hist_fmt"].as_u64()? as usize];
            let h = IHist { stream: 0, fmt: 0, calls: calls_of(&v["hist_calls"]) };
            let pf = if v["probe_zlib"].as_bool()? { DataFormat::Zlib } else { DataFormat::Raw };
            let rname = v["reset"].as_str()?.to_string();
            let keeps = rname == "MinReset" || rname == "ZeroReset";
            let target = if keeps { hist_fmt } else { pf };
            let (chunk, room, finish) = (unlim(v["chunk"].as_u64()?), v["room"].as_u64()? as usize, v["finish"].as_bool()?);
            let r = guarded(|| {
                let mut used = InflateState::new_boxed(hist_fmt);
                run_inf_history(&mut used, &hs, &h);
                match rname.as_str() {
                    "MinReset" => used.reset_as(MinReset),
                    "ZeroReset" => used.reset_as(ZeroReset),
                    "FullReset" => used.reset_as(FullReset(target)),
                    _ => used.reset(target),
                }
                let mut fresh = InflateState::new_boxed(target);
                inf_probe(&mut used, &ps, chunk, room, finish) == inf_probe(&mut fresh, &ps, chunk, room, finish)
            });
            match r {
                Ok(true) => None,
                Ok(false) => Some(format!("decoding the probe after history + {} differs from a fresh InflateState", rname)),
                Err(p) => Some(format!("panic {}", p)),
            }
        }
        _ => Some("this C18 case kind is replayed by re-running the sweep: ./check C18 quick reports the same site keys deterministically".into()),
    }
}
