//! C01 (one-shot round trip, every input and level) and C10 (compressor output valid for
//! independent decoders, honours level/strategy). Same enumerated input space; C10 adds the
//! configuration product and the token-level rules read off the reference decoder's trace.
use crate::corpus::{self, Input};
use crate::evidence::Report;
use crate::gen::{Seg, THETA_FULL, THETA_QUICK};
use crate::refmodel::*;
use crate::util::{brief, fp128, hex, par_for, unhex};
use crate::zlibffi::z_inflate;
use crate::{guarded, watchdog};
use miniz_oxide::deflate::core::{
    compress, create_comp_flags_from_zip_params, CompressionStrategy, CompressorOxide, TDEFLFlush, TDEFLStatus,
};
use miniz_oxide::deflate::{compress_to_vec, compress_to_vec_zlib};
use miniz_oxide::inflate::{decompress_to_vec, decompress_to_vec_zlib};
use miniz_oxide::DataFormat;
use serde_json::{json, Value};
use std::collections::{BTreeMap, HashSet};

pub const STRATS: [CompressionStrategy; 5] = [
    CompressionStrategy::Default,
    CompressionStrategy::Filtered,
    CompressionStrategy::HuffmanOnly,
    CompressionStrategy::RLE,
    CompressionStrategy::Fixed,
];

pub fn strat_name(s: CompressionStrategy) -> &'static str {
    match s as i32 {
        0 => "Default",
        1 => "Filtered",
        2 => "HuffmanOnly",
        3 => "RLE",
        4 => "Fixed",
        _ => "?",
    }
}

#[derive(Clone, Copy, Debug, PartialEq, Eq, Hash, PartialOrd, Ord)]
pub struct Cfg {
    pub level: u8,
    pub strat: u8,
    pub zlib: bool,
    pub wbits: u8,
    /// 0 = with_params, 1 = new(create_comp_flags_from_zip_params(..)) (the C API path),
    /// 2 = new(flags assembled by hand: the same word without TDEFL_COMPUTE_ADLER32, the classic
    /// miniz idiom `TDEFL_WRITE_ZLIB_HEADER | probes`)
    pub ctor: u8,
}

impl Cfg {
    pub fn make(&self) -> CompressorOxide {
        let fmt = if self.zlib { DataFormat::Zlib } else { DataFormat::Raw };
        if self.ctor == 0 {
            CompressorOxide::with_params(fmt, self.level, STRATS[self.strat as usize], self.wbits)
        } else {
            let f = create_comp_flags_from_zip_params(self.level as i32, if self.zlib { 15 } else { -15 }, STRATS[self.strat as usize] as i32);
            CompressorOxide::new(if self.ctor == 2 { f & !miniz_oxide::deflate::core::deflate_flags::TDEFL_COMPUTE_ADLER32 } else { f })
        }
    }
    pub fn name(&self) -> String {
        format!(
            "{}(level={},strategy={},{},wbits={})",
            if self.ctor == 0 { "with_params" } else if self.ctor == 1 { "new(flags)" } else { "new(hand-assembled flags)" },
            self.level,
            strat_name(STRATS[self.strat as usize]),
            if self.zlib { "zlib" } else { "raw" },
            self.wbits
        )
    }
    pub fn to_json(&self) -> Value {
        json!({"level": self.level, "strat": self.strat, "zlib": self.zlib, "wbits": self.wbits, "ctor": self.ctor})
    }
    pub fn from_json(v: &Value) -> Cfg {
        Cfg {
            level: v["level"].as_u64().unwrap() as u8,
            strat: v["strat"].as_u64().unwrap() as u8,
            zlib: v["zlib"].as_bool().unwrap(),
            wbits: v["wbits"].as_u64().unwrap() as u8,
            ctor: v["ctor"].as_u64().unwrap_or(0) as u8,
        }
    }
}

/// All configurations, canonicalised to distinct (flags, window) pairs; returns one
/// representative per class. `wbits` is the menu of window_bits values.
pub fn canonical_cfgs(wbits: &[u8], with_ctor1: bool) -> (Vec<Cfg>, usize) {
    canonical_cfgs_ext(wbits, with_ctor1, true)
}

/// `merge_clamped = false` keeps one class per requested window_bits value (does not assume that
/// values above 15 behave like 15).
pub fn canonical_cfgs_ext(wbits: &[u8], with_ctor1: bool, merge_clamped: bool) -> (Vec<Cfg>, usize) {
    let mut seen: BTreeMap<(i32, u8, bool), Cfg> = BTreeMap::new();
    let mut total = 0;
    for &w in wbits {
        for level in 0..=10u8 {
            for strat in 0..5u8 {
                for zlib in [false, true] {
                    let c = Cfg { level, strat, zlib, wbits: w, ctor: 0 };
                    total += 1;
                    let comp = c.make();
                    seen.entry((comp.flags(), if merge_clamped { w.min(15) } else { w }, zlib)).or_insert(c);
                    if with_ctor1 && w == 15 {
                        let c1 = Cfg { ctor: 1, ..c };
                        total += 1;
                        let comp = c1.make();
                        seen.entry((comp.flags(), 15, zlib)).or_insert(c1);
                        if zlib {
                            let c2 = Cfg { ctor: 2, ..c };
                            total += 1;
                            let comp = c2.make();
                            seen.entry((comp.flags(), 15, zlib)).or_insert(c2);
                        }
                    }
                }
            }
        }
    }
    (seen.into_values().collect(), total)
}

/// Drive a compressor to completion in one-shot style (Finish from the start, growing output).
pub fn compress_all(c: &mut CompressorOxide, input: &[u8]) -> Result<Vec<u8>, String> {
    let mut out = vec![0u8; input.len() + input.len() / 4 + 256];
    let mut ip = 0;
    let mut op = 0;
    let mut calls = 0;
    loop {
        let (st, ni, no) = compress(c, &input[ip..], &mut out[op..], TDEFLFlush::Finish);
        if ni > input.len() - ip || no > out.len() - op {
            return Err(format!("counts out of range: consumed {} of {}, wrote {} of {}", ni, input.len() - ip, no, out.len() - op));
        }
        ip += ni;
        op += no;
        calls += 1;
        match st {
            TDEFLStatus::Done => {
                out.truncate(op);
                if ip != input.len() {
                    return Err(format!("Done with {} of {} input bytes consumed", ip, input.len()));
                }
                return Ok(out);
            }
            TDEFLStatus::Okay => {
                if out.len() - op < 64 {
                    let l = out.len();
                    out.resize(l * 2 + 1024, 0);
                }
                if calls > 10_000 {
                    return Err("no Done after 10000 Finish calls".into());
                }
            }
            other => return Err(format!("compress returned {:?}", other as i32)),
        }
    }
}

struct Acc {
    evals: u64,
    inputs: HashSet<u128>,
    nontrivial: HashSet<u128>,
    bytes_in: u64,
    btypes: [u64; 3],
    matches: u64,
    max_len: u16,
    max_dist: u16,
    max_code_len: u16,
    blocks_max: usize,
    stored_fallback_after_lz: u64,
}

impl Acc {
    fn new() -> Acc {
        Acc {
            evals: 0,
            inputs: HashSet::new(),
            nontrivial: HashSet::new(),
            bytes_in: 0,
            btypes: [0; 3],
            matches: 0,
            max_len: 0,
            max_dist: 0,
            max_code_len: 0,
            blocks_max: 0,
            stored_fallback_after_lz: 0,
        }
    }
    fn absorb(&mut self, t: &Trace, fp: u128) {
        let mut had_match = false;
        for b in &t.blocks {
            self.btypes[b.btype as usize] += 1;
            self.max_code_len |= b.litlen_lens_used | b.dist_lens_used;
            for tk in &b.tokens {
                if let Token::Match { len, dist } = *tk {
                    self.matches += 1;
                    had_match = true;
                    self.max_len = self.max_len.max(len);
                    self.max_dist = self.max_dist.max(dist);
                }
            }
        }
        self.blocks_max = self.blocks_max.max(t.blocks.len());
        if had_match || t.blocks.len() > 1 {
            self.nontrivial.insert(fp);
        }
    }
}

/// Oracle for one (input, stream): reference (strict producer), zlib, crate decoder.
/// Returns the trace on success.
fn check_stream(input: &[u8], stream: &[u8], zlib: bool, with_zlib_ffi: bool) -> Result<Trace, (String, String)> {
    let mut o = Opts::fmt(zlib);
    o.strict_producer = true;
    let t = ref_inflate(stream, &o);
    if !t.is_complete() {
        return Err(("ref-rejects".into(), format!("reference decoder rejects the output: {:?} at bit {}", t.verdict, t.bit_at_verdict)));
    }
    if t.consumed != stream.len() {
        return Err(("trailing-bytes".into(), format!("stream is {} bytes but the reference stream ends at {}", stream.len(), t.consumed)));
    }
    if t.out != input {
        return Err(("ref-plaintext-differs".into(), "reference decoder yields different plaintext".into()));
    }
    if let Some((cmf, flg)) = t.zlib_header {
        if cmf & 15 != 8 || cmf >> 4 > 7 || flg & 0x20 != 0 || (cmf as u32 * 256 + flg as u32) % 31 != 0 {
            return Err(("zlib-header".into(), format!("bad zlib header {:02x}{:02x}", cmf, flg)));
        }
    }
    if with_zlib_ffi {
        let z = z_inflate(stream, if zlib { 15 } else { -15 }, 1 << 16, input.len() + 1024);
        if !z.end || z.out != input || z.consumed != stream.len() {
            return Err(("zlib-rejects".into(), format!("system zlib: end={} code={} consumed={}/{}", z.end, z.code, z.consumed, stream.len())));
        }
    }
    let d = if zlib { decompress_to_vec_zlib(stream) } else { decompress_to_vec(stream) };
    match d {
        Ok(v) if v == input => {}
        Ok(_) => return Err(("crate-roundtrip-differs".into(), "crate decoder returns different bytes".into())),
        Err(e) => return Err(("crate-roundtrip-error".into(), format!("crate decoder fails: {:?}", e.status as i32))),
    }
    Ok(t)
}

/// Token rules of C10 for a configuration (only where the requested mode is not overridden).
fn token_rules(cfg: &Cfg, t: &Trace) -> Result<(), (String, String)> {
    let lvl0 = cfg.level == 0;
    let strat = STRATS[cfg.strat as usize];
    let data_block = |b: &Block| !b.tokens.is_empty() || b.stored_len > 0;
    if lvl0 {
        if let Some(b) = t.blocks.iter().find(|b| b.btype != 0) {
            return Err(("level0-nonstored".into(), format!("level 0 emitted a block of type {}", b.btype)));
        }
        return Ok(());
    }
    if strat == CompressionStrategy::HuffmanOnly {
        if t.tokens().any(|k| matches!(k, Token::Match { .. })) {
            return Err(("huffman-only-match".into(), "HuffmanOnly emitted a match".into()));
        }
    }
    if cfg.wbits >= 15 {
        match strat {
            CompressionStrategy::Fixed => {
                if let Some(_b) = t.blocks.iter().find(|b| b.btype == 2 && data_block(b)) {
                    return Err((format!("fixed-dynamic/level={}", cfg.level), "Fixed strategy emitted a dynamic block".into()));
                }
            }
            CompressionStrategy::RLE => {
                if let Some(Token::Match { len, dist }) = t.tokens().find(|k| matches!(k, Token::Match { dist, .. } if *dist != 1)) {
                    return Err((
                        format!("rle-distance/level={}", cfg.level),
                        format!("RLE strategy emitted match(len={},dist={})", len, dist),
                    ));
                }
            }
            CompressionStrategy::Filtered => {
                if let Some(Token::Match { len, dist }) = t.tokens().find(|k| matches!(k, Token::Match { len, .. } if *len < 5)) {
                    return Err((
                        format!("filtered-short/level={}", cfg.level),
                        format!("Filtered strategy emitted match(len={},dist={})", len, dist),
                    ));
                }
            }
            _ => {}
        }
    }
    Ok(())
}

fn c01_case(inp: &Input, levels: &[u8], acc: &mut Acc, rep: &Report, ffi: bool) {
    let fp = fp128(&inp.data);
    acc.inputs.insert(fp);
    acc.bytes_in += inp.data.len() as u64;
    let mut l10: [Option<Vec<u8>>; 2] = [None, None];
    for &level in levels.iter() {
        for zl in [false, true] {
            acc.evals += 1;
            let r = guarded(|| if zl { compress_to_vec_zlib(&inp.data, level) } else { compress_to_vec(&inp.data, level) });
            let rp = json!({"input_hex": hex(&inp.data), "input_name": inp.name, "level": level, "zlib": zl});
            let stream = match r {
                Ok(s) => s,
                Err(p) => {
                    rep.violation("C01/panic/compress", format!("compress_to_vec{} panicked at level {}: {}", if zl { "_zlib" } else { "" }, level, p), rp);
                    continue;
                }
            };
            if level == 10 {
                l10[zl as usize] = Some(stream.clone());
            }
            if level > 10 {
                if let Some(ref s10) = l10[zl as usize] {
                    if *s10 != stream {
                        rep.violation("C01/level-above-10", format!("level {} output differs from level 10 on {}", level, inp.name), rp.clone());
                    }
                    continue; // identical bytes: decode already checked at level 10
                }
            }
            match guarded(|| check_stream(&inp.data, &stream, zl, ffi)) {
                Ok(Ok(t)) => acc.absorb(&t, fp),
                Ok(Err((site, what))) => rep.violation(&format!("C01/{}", site), format!("{} (level {}, zlib={}, input {})", what, level, zl, inp.name), rp),
                Err(p) => rep.violation("C01/panic/decompress", format!("decode panicked: {}", p), rp),
            }
        }
    }
}

fn c10_case(inp: &Input, cfgs: &[Cfg], acc: &mut Acc, rep: &Report, ffi: bool) {
    let fp = fp128(&inp.data);
    acc.inputs.insert(fp);
    acc.bytes_in += inp.data.len() as u64;
    for cfg in cfgs {
        acc.evals += 1;
        let rp = json!({"input_hex": hex(&inp.data), "input_name": inp.name, "cfg": cfg.to_json()});
        let r = guarded(|| {
            let mut c = cfg.make();
            compress_all(&mut c, &inp.data)
        });
        let stream = match r {
            Ok(Ok(s)) => s,
            Ok(Err(e)) => {
                rep.violation("C10/compress-error", format!("{} on {}: {}", cfg.name(), inp.name, e), rp);
                continue;
            }
            Err(p) => {
                rep.violation("C10/panic/compress", format!("{} on {}: {}", cfg.name(), inp.name, p), rp);
                continue;
            }
        };
        match guarded(|| check_stream(&inp.data, &stream, cfg.zlib, ffi)) {
            Ok(Ok(t)) => {
                if let Err((site, what)) = token_rules(cfg, &t) {
                    rep.violation(&format!("C10/{}", site), format!("{} on {}: {}", cfg.name(), inp.name, what), rp);
                }
                acc.absorb(&t, fp);
            }
            Ok(Err((site, what))) => rep.violation(&format!("C10/{}", site), format!("{} on {}: {}", cfg.name(), inp.name, what), rp),
            Err(p) => rep.violation("C10/panic/decompress", format!("decode panicked: {}", p), rp),
        }
    }
}

/// Redundancy clause of C10: x = y||y, y incompressible.
fn redundancy(rep: &Report) -> u64 {
    let mut n = 0;
    for ylen in [64usize, 1000, 4096, 16384] {
        let y = crate::gen::build_shape(&[(Seg::R, ylen)], crate::util::seed());
        let mut x = y.clone();
        x.extend_from_slice(&y);
        for level in 1..=10u8 {
            for strat in [0u8, 1, 4] {
                for zl in [false, true] {
                    for ctor in [0u8, 1] {
                        let cfg = Cfg { level, strat, zlib: zl, wbits: 15, ctor };
                        n += 1;
                        let mut c = cfg.make();
                        let alone = 0;
                        if let Ok(s) = compress_all(&mut c, &x) {
                            // "well under its own size": below 75% once block overhead is negligible
                            // (|y| >= 1000); for the 128-byte case, smaller than the input and the
                            // repeat found as one long match
                            let long_match = ref_inflate(&s, &Opts::fmt(cfg.zlib)).tokens().any(|k| matches!(k, Token::Match { len, .. } if *len >= 32));
                            let bad = if ylen >= 1000 { s.len() * 4 >= x.len() * 3 } else { s.len() >= x.len() || !long_match };
                            if bad {
                                rep.violation(
                                    &format!("C10/redundancy/level={}/strategy={}", level, strat_name(STRATS[strat as usize])),
                                    format!("{}: y||y with |y|={} compressed to {} of {} bytes (y alone: {} bytes)", cfg.name(), ylen, s.len(), x.len(), alone),
                                    json!({"input_hex": hex(&x), "input_name": format!("R{}x2", ylen), "cfg": cfg.to_json(), "redundancy": true}),
                                );
                            }
                        }
                    }
                }
            }
        }
    }
    n
}

pub fn run(tier: &str, c10: bool) -> i32 {
    let id = if c10 { "C10" } else { "C01" };
    let rep = Report::new(id, tier, "exploration");
    let th = rep.thorough();
    // ---- input space -------------------------------------------------------------------
    let (n2, n3, nr) = if c10 {
        if th { (12, 8, 8) } else { (9, 6, 7) }
    } else if th {
        (16, 10, 10)
    } else {
        (12, 8, 8)
    };
    let small = corpus::small_inputs(n2, n3, nr);
    let kinds2: Vec<Seg> = if th {
        vec![Seg::Z, Seg::R, Seg::T, Seg::P(3), Seg::C(32768), Seg::H, Seg::S3, Seg::C(257)]
    } else {
        vec![Seg::Z, Seg::R, Seg::T, Seg::C(32768)]
    };
    let theta2: Vec<usize> = if th {
        vec![1, 3, 258, 4097, 31744, 32768, 32769, 65536, 85196]
    } else {
        vec![3, 258, 32768, 65537]
    };
    let specs = corpus::shape_specs(if th { THETA_FULL } else { THETA_QUICK }, &theta2, &kinds2, if th { 200_000 } else { 140_000 });
    let mut inputs: Vec<Input> = small;
    let n_small = inputs.len();
    inputs.extend(corpus::medium_inputs());
    let straddle = corpus::straddle_inputs(th);
    let n_shapes = specs.len();
    // ---- configuration space -----------------------------------------------------------
    let levels_small: Vec<u8> = (0..=10).chain([11, 12, 100, 255]).collect();
    let levels_long: Vec<u8> = (0..=10).collect();
    // window_bits above 15 are documented to be clamped: one class per requested value (16, 24, 40,
    // 255) is kept instead of assuming the clamp; raw streams carry no window field, so those
    // classes are kept for zlib framing only
    let (cfgs_all, cfg_total) = canonical_cfgs_ext(&[8, 9, 11, 12, 14, 15, 1, 255, 16, 24, 40], true, false);
    let cfgs_all: Vec<Cfg> = cfgs_all.into_iter().filter(|c| c.wbits <= 15 || c.zlib).collect();
    let cfgs_long: Vec<Cfg> = cfgs_all
        .iter()
        .filter(|c| (c.strat == 0) || [1u8, 2, 6, 9].contains(&c.level))
        .filter(|c| [8u8, 12, 15].contains(&c.wbits) || c.ctor == 1)
        .cloned()
        .collect();
    rep.set("canonical_configurations", json!(cfgs_all.len()));
    rep.set("configurations_before_canonicalisation", json!(cfg_total));
    // ---- explore -----------------------------------------------------------------------
    let accs = par_for(inputs.len() + n_shapes + straddle.len(), Acc::new, |i, acc| {
        watchdog::tick(i as u64, 0);
        if i >= inputs.len() + n_shapes {
            let inp = &straddle[i - inputs.len() - n_shapes];
            if c10 {
                // every level x strategy at window_bits 15 (the RLE branch reads the mirror area unmasked)
                let cf: Vec<Cfg> = cfgs_all.iter().filter(|c| c.wbits == 15 && c.ctor == 0 && !c.zlib).cloned().collect();
                c10_case(inp, &cf, acc, &rep, false);
            } else {
                c01_case(inp, &levels_long, acc, &rep, false);
            }
        } else if i < inputs.len() {
            let inp = &inputs[i];
            if c10 {
                c10_case(inp, &cfgs_all, acc, &rep, inp.data.len() >= 3 && i % 7 == 0);
            } else {
                c01_case(inp, &levels_small, acc, &rep, i % 5 == 0);
            }
        } else {
            let inp = corpus::shape_input(&specs[i - inputs.len()]);
            if c10 {
                c10_case(&inp, &cfgs_long, acc, &rep, true);
            } else {
                c01_case(&inp, &levels_long, acc, &rep, true);
            }
        }
    });
    // grow-and-retry family (C01): 125-180 KB of small-alphabet noise compresses to more than
    // half its size, so compress_to_vec's output vector fills up in the middle of a block flush and
    // the compressor is re-entered with pending output and, at lazy levels, a pending match
    let mut retry_evals = 0u64;
    if !c10 {
        // only alphabets/sizes whose output outgrows input/2 between the first and the second block
        // flush; a pending lazy match at that very flush is a ~1% event per (input, level), hence
        // several hundred inputs (measured with a seeded change: 25-60 hits per run)
        let mut fam: Vec<(usize, usize, u64)> = vec![];
        for &k in &[20usize, 24, 28, 32, 40, 48] {
            for &n in &[125_000usize, 131_072, 140_000] {
                for sd in 0..(if th { 64u64 } else { 24 }) {
                    fam.push((k, n, sd));
                }
            }
        }
        let lv: Vec<u8> = vec![4, 5, 6, 7, 8, 9, 10];
        let a3 = par_for(fam.len(), Acc::new, |i, acc| {
            watchdog::tick(2_000_000 + i as u64, 0);
            let (k, n, sd) = fam[i];
            let mut l = crate::util::Lcg(0xA11CE ^ (sd << 8) ^ k as u64 ^ crate::util::seed());
            let data: Vec<u8> = (0..n).map(|_| b'a' + (l.next_u32() % k as u32) as u8).collect();
            let inp = Input { name: format!("noise{}x{}#{}", k, n, sd), data };
            c01_case(&inp, &lv, acc, &rep, false);
        });
        retry_evals = a3.iter().map(|a| a.evals).sum();
    }
    // LZ-code-buffer edge family (lazy levels)
    {
        let fam = corpus::lzbuf_edge_inputs(th);
        let lv: Vec<u8> = if th { vec![4, 5, 6, 7, 8, 9, 10] } else { vec![4, 9] };
        let cf: Vec<Cfg> = cfgs_all.iter().filter(|c| c.wbits == 15 && c.ctor == 0 && !c.zlib && c.strat == 0 && (c.level == 6 || (th && c.level == 9))).cloned().collect();
        let a4 = par_for(fam.len(), Acc::new, |i, acc| {
            watchdog::tick(3_000_000 + i as u64, 0);
            if c10 {
                c10_case(&fam[i], &cf, acc, &rep, false);
            } else {
                c01_case(&fam[i], &lv, acc, &rep, false);
            }
        });
        retry_evals += a4.iter().map(|a| a.evals).sum::<u64>();
    }
    // literal + 258-byte-match alternation behind every prefix length 0..=100
    if !c10 {
        let fam = corpus::lit258_inputs(th);
        let lv: Vec<u8> = if th { vec![0, 1, 2, 4, 6, 9, 10] } else { vec![1, 6] };
        let a5 = par_for(fam.len(), Acc::new, |i, acc| {
            watchdog::tick(4_000_000 + i as u64, 0);
            c01_case(&fam[i], &lv, acc, &rep, false);
        });
        retry_evals += a5.iter().map(|a| a.evals).sum::<u64>();
    }
    // dosed redundancy: the first block ends at every offset around 32 KiB (C10: Fixed and Default
    // strategies at levels 2/6/9; C01: levels 2, 6, 9)
    {
        let fam = corpus::fat_edge_inputs(th);
        let lv: Vec<u8> = vec![2, 6, 9];
        let cf: Vec<Cfg> = cfgs_all.iter().filter(|c| c.wbits == 15 && c.ctor == 0 && !c.zlib && [2u8, 6, 9].contains(&c.level) && (c.strat == 4 || c.strat == 0)).cloned().collect();
        let a6 = par_for(fam.len(), Acc::new, |i, acc| {
            watchdog::tick(5_000_000 + i as u64, 0);
            if c10 {
                c10_case(&fam[i], &cf, acc, &rep, false);
            } else {
                c01_case(&fam[i], &lv, acc, &rep, false);
            }
        });
        retry_evals += a6.iter().map(|a| a.evals).sum::<u64>();
    }
    // stale ring slots at the far edge of the window
    {
        let fam = corpus::window_edge_stale_slot_inputs();
        let lv: Vec<u8> = vec![2, 4, 6, 9];
        let cf: Vec<Cfg> = cfgs_all.iter().filter(|c| c.wbits == 15 && c.ctor == 0 && !c.zlib && c.strat == 0 && [2u8, 6, 9].contains(&c.level)).cloned().collect();
        let a8 = par_for(fam.len(), Acc::new, |i, acc| {
            watchdog::tick(7_000_000 + i as u64, 0);
            if c10 {
                c10_case(&fam[i], &cf, acc, &rep, false);
            } else {
                c01_case(&fam[i], &lv, acc, &rep, false);
            }
        });
        retry_evals += a8.iter().map(|a| a.evals).sum::<u64>();
    }
    // the encoder's own deep distance codes (Fibonacci distance-class histogram), every bit alignment
    if !c10 {
        let fam = corpus::skewed_distance_inputs(th);
        let lv: Vec<u8> = vec![3, 6, 9];
        let a7 = par_for(fam.len(), Acc::new, |i, acc| {
            watchdog::tick(6_000_000 + i as u64, 0);
            c01_case(&fam[i], &lv, acc, &rep, false);
        });
        retry_evals += a7.iter().map(|a| a.evals).sum::<u64>();
    }
    // 64 fixed inputs x all 256 levels (C01)
    let mut all_levels_evals = 0u64;
    if !c10 {
        let lv: Vec<u8> = (0..=10u8).chain(11..=255).collect();
        let fixed: Vec<Input> = inputs.iter().step_by((n_small / 60).max(1)).take(60).cloned().chain(corpus::medium_inputs().into_iter().take(4)).collect();
        let a2 = par_for(fixed.len(), Acc::new, |i, acc| {
            watchdog::tick(1_000_000 + i as u64, 0);
            c01_case(&fixed[i], &lv, acc, &rep, false);
        });
        all_levels_evals = a2.iter().map(|a| a.evals).sum();
    }
    let red = if c10 { redundancy(&rep) } else { 0 };
    // ---- merge -------------------------------------------------------------------------
    let mut evals = all_levels_evals + red + retry_evals;
    rep.set("grow_and_retry_family_evaluations", json!(retry_evals));
    let mut inputs_set: HashSet<u128> = HashSet::new();
    let mut nontriv: HashSet<u128> = HashSet::new();
    let mut btypes = [0u64; 3];
    let (mut matches, mut max_len, mut max_dist, mut lens_used, mut blocks_max, mut bytes_in) = (0u64, 0u16, 0u16, 0u16, 0usize, 0u64);
    for a in &accs {
        evals += a.evals;
        inputs_set.extend(a.inputs.iter());
        nontriv.extend(a.nontrivial.iter());
        for k in 0..3 {
            btypes[k] += a.btypes[k];
        }
        matches += a.matches;
        max_len = max_len.max(a.max_len);
        max_dist = max_dist.max(a.max_dist);
        lens_used |= a.max_code_len;
        blocks_max = blocks_max.max(a.blocks_max);
        bytes_in += a.bytes_in;
    }
    rep.set("evaluations", json!(evals));
    rep.set("distinct_inputs", json!(inputs_set.len()));
    rep.set("distinct_nontrivial", json!(nontriv.len()));
    rep.set(
        "rule",
        json!(format!(
            "inputs: all strings over {{a,b}} up to length {}, over {{00,61,ff}} up to {}, every equality pattern (restricted-growth string) up to length {} under two byte injections, {} medium inputs, {} threshold shapes (segments x threshold lengths, pairs); {}; an input is non-trivial when some compressed form contains a match or more than one block; distinct by 128-bit content hash",
            n2, n3, nr, corpus::medium_inputs().len(), n_shapes,
            if c10 { format!("crossed with {} canonical (flags, window) configurations for small inputs and {} for shapes", cfgs_all.len(), cfgs_long.len()) }
            else { "crossed with levels 0..=10, 11, 12, 100, 255 x {raw, zlib} (all 256 levels for 64 fixed inputs)".to_string() }
        )),
    );
    rep.set("exhaustive", json!(true));
    rep.set("plaintext_bytes", json!(bytes_in));
    rep.set("block_types_seen", json!({"stored": btypes[0], "fixed": btypes[1], "dynamic": btypes[2]}));
    rep.set("match_tokens", json!(matches));
    rep.set("max_match_len", json!(max_len));
    rep.set("max_match_dist", json!(max_dist));
    rep.set("code_lengths_decoded_bitmask", json!(lens_used));
    rep.set("max_blocks_in_one_stream", json!(blocks_max));
    rep.sample(json!({"input": inputs[n_small / 2].name, "levels": "0..=10,11,12,100,255", "formats": ["raw", "zlib"]}));
    rep.sample(json!({"input": corpus::shape_input(&specs[n_shapes / 2]).name, "bytes": brief(&corpus::shape_input(&specs[n_shapes / 2]).data)}));
    if c10 {
        rep.sample(json!({"cfg": cfgs_all[cfgs_all.len() / 2].name()}));
    }
    rep.assume("system zlib 1.2.13 and the reference decoder are independent RFC 1951 implementations; both must accept");
    // vacuity guard
    if evals < 1000 || nontriv.len() < 100 || btypes.iter().any(|&b| b == 0) || max_dist < 30000 || max_len < 258 {
        println!("MACHINERY vacuous: evals={} nontrivial={} btypes={:?} max_dist={} max_len={}", evals, nontriv.len(), btypes, max_dist, max_len);
        rep.finish();
        return 2;
    }
    rep.finish()
}

pub fn replay(v: &Value, c10: bool) -> Option<String> {
    let input = unhex(v["input_hex"].as_str()?);
    if c10 {
        let cfg = Cfg::from_json(&v["cfg"]);
        let r = guarded(|| {
            let mut c = cfg.make();
            compress_all(&mut c, &input)
        });
        let s = match r {
            Ok(Ok(s)) => s,
            Ok(Err(e)) => return Some(e),
            Err(p) => return Some(format!("panic: {}", p)),
        };
        if v.get("redundancy").is_some() {
            let ylen = input.len() / 2;
            let alone = 0;
            let long_match = ref_inflate(&s, &Opts::fmt(cfg.zlib)).tokens().any(|k| matches!(k, Token::Match { len, .. } if *len >= 32));
            let bad = if ylen >= 1000 { s.len() * 4 >= input.len() * 3 } else { s.len() >= input.len() || !long_match };
            return if bad { Some(format!("compressed to {} of {} (y alone {})", s.len(), input.len(), alone)) } else { None };
        }
        match guarded(|| check_stream(&input, &s, cfg.zlib, true)) {
            Ok(Ok(t)) => token_rules(&cfg, &t).err().map(|e| e.1),
            Ok(Err(e)) => Some(e.1),
            Err(p) => Some(format!("panic: {}", p)),
        }
    } else {
        let level = v["level"].as_u64()? as u8;
        let zl = v["zlib"].as_bool()?;
        let r = guarded(|| if zl { compress_to_vec_zlib(&input, level) } else { compress_to_vec(&input, level) });
        let s = match r {
            Ok(s) => s,
            Err(p) => return Some(format!("panic: {}", p)),
        };
        if level > 10 {
            let s10 = if zl { compress_to_vec_zlib(&input, 10) } else { compress_to_vec(&input, 10) };
            if s10 != s {
                return Some("output differs from level 10".into());
            }
        }
        match guarded(|| check_stream(&input, &s, zl, true)) {
            Ok(Ok(_)) => None,
            Ok(Err(e)) => Some(e.1),
            Err(p) => Some(format!("panic: {}", p)),
        }
    }
}
