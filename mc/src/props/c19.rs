//! C19: decoder snapshots resume identically — clone, serialise/deserialise, and (feature
//! block-boundary) a decoder rebuilt from the documented boundary record.
use crate::drv::*;
use crate::evidence::Report;
use crate::gen::GenStream;
use crate::util::{hex, par_for, unhex};
use crate::{corpus, guarded, streams, watchdog};
use miniz_oxide::inflate::core::DecompressorOxide;
use miniz_oxide::inflate::stream::{inflate, InflateState};
use miniz_oxide::inflate::TINFLStatus;
use miniz_oxide::{DataFormat, MZFlush};
use serde_json::{json, Value};

fn snapshot_streams(th: bool) -> Vec<GenStream> {
    let mut v: Vec<GenStream> = corpus::compact_corpus(true).into_iter().step_by(if th { 2 } else { 7 }).collect();
    v.extend(corpus::produced_corpus().into_iter().filter(|s| s.bytes.len() < 700).step_by(if th { 2 } else { 9 }));
    v.extend(streams::clen_encoding_variants(None).into_iter().step_by(if th { 5 } else { 25 }));
    v.extend(streams::stored_edges(Some((7, 0))).into_iter().filter(|s| s.bytes.len() < 400).step_by(if th { 3 } else { 11 }));
    // two stored blocks (snapshots inside LEN/NLEN headers) and a failing stream
    let mut b = crate::gen::StreamBuilder::new(None);
    b.stored(b"first block", false).stored(b"second", true);
    v.push(b.finish());
    let mut bad = v[0].clone();
    let l = bad.bytes.len();
    bad.bytes[l / 2] ^= 0x55;
    bad.desc = format!("corrupt[{}]", bad.desc);
    v.push(bad);
    v
}

/// Continue `d` to the end under (chunk, budget) and return the transcript.
fn finish(mut d: DecDrv, data: &[u8], chunk: usize, budget: usize) -> (i8, Vec<u8>, usize, Option<u32>) {
    d.keep_out = true;
    drive(&mut d, data, chunk, budget, &mut |_, _| {});
    (d.last.map(|s| s as i8).unwrap_or(99), d.out.clone(), d.in_pos, d.r.adler32())
}

/// (a)+(b): at every inter-call state of a scheduled run, clone and serde round-trip, continue all.
fn snapshot_case(s: &GenStream, mode: Mode, blen: usize, chunk: usize, budget: usize) -> Result<(u64, u64), String> {
    let zf = if s.zlib { F_ZLIB } else { 0 };
    let mut d = DecDrv::new(mode, blen, zf, 0x42);
    d.keep_out = true;
    let mut points = 0u64;
    let mut steps = 0u64;
    let mut want_input = true;
    let mut idle = 0;
    loop {
        // snapshot here (between two calls)
        points += 1;
        let base = finish(d.clone(), &s.bytes, usize::MAX, usize::MAX);
        // (a) clone of the decoder object
        let mut c = d.clone();
        c.r = Box::new((*d.r).clone());
        // (b) serialise-then-deserialise copy
        let bytes = rmp_serde::to_vec(&*d.r).map_err(|e| format!("serialise failed: {}", e))?;
        let back: DecompressorOxide = rmp_serde::from_slice(&bytes).map_err(|e| format!("deserialise failed after {} calls: {}", d.calls, e))?;
        if HOOKS && d.fingerprint(0) != { let mut t = d.clone(); t.r = Box::new(back.clone()); t.fingerprint(0) } {
            return Err(format!("serde copy differs from the original in some field after {} calls (state {})", d.calls, dec_state_name(&d.r)));
        }
        let mut sd = d.clone();
        sd.r = Box::new(back);
        for (cc, bb) in [(usize::MAX, usize::MAX), (1usize, usize::MAX), (2, 3)] {
            let x = finish(d.clone(), &s.bytes, cc, bb);
            let y = finish(c.clone(), &s.bytes, cc, bb);
            let z = finish(sd.clone(), &s.bytes, cc, bb);
            steps += 3;
            if x != y {
                return Err(format!("clone taken after {} calls resumes differently (status {} vs {}, {} vs {} bytes)", d.calls, y.0, x.0, y.1.len(), x.1.len()));
            }
            if x != z {
                return Err(format!(
                    "serde copy taken after {} calls (state {}) resumes differently: status {} vs {}, {} vs {} bytes out, consumed {} vs {}, adler {:?} vs {:?}",
                    d.calls, dec_state_name(&d.r), z.0, x.0, z.1.len(), x.1.len(), z.2, x.2, z.3, x.3
                ));
            }
            if (x.0, &x.1, x.2) != (base.0, &base.1, base.2) && mode == Mode::Flat {
                // resumption under another schedule must agree too (C07), reported there
            }
        }
        if d.terminal() {
            break;
        }
        let before = d.avail_end;
        let o = d.step(&s.bytes, if want_input { chunk } else { 0 }, budget);
        let progressed = o.consumed > 0 || o.written > 0 || d.avail_end > before;
        idle = if progressed { 0 } else { idle + 1 };
        if idle > 4 || d.calls > 5000 {
            break;
        }
        want_input = o.status == TINFLStatus::NeedsMoreInput || (o.status == TINFLStatus::HasMoreOutput && o.written == 0);
    }
    Ok((points, steps))
}

/// InflateState: Clone at every inter-call state.
fn inflate_clone_case(s: &GenStream, chunk: usize, room: usize) -> Result<u64, String> {
    let fmt = if s.zlib { DataFormat::Zlib } else { DataFormat::Raw };
    let mut st = InflateState::new_boxed(fmt);
    let mut ip = 0;
    let mut out: Vec<u8> = vec![];
    let mut buf = vec![0u8; room];
    let mut points = 0;
    for _ in 0..20_000 {
        points += 1;
        let mut a = st.clone();
        let mut b2 = Box::new((*st).clone());
        let ra = inflate_loop_from(&mut a, &s.bytes, ip, usize::MAX, 1 << 16, MZFlush::None, out.clone());
        let rb = if s.bytes.len() > 5000 { inflate_loop_from(&mut b2, &s.bytes, ip, 777, 500, MZFlush::None, out.clone()) } else { inflate_loop_from(&mut b2, &s.bytes, ip, 1, 3, MZFlush::None, out.clone()) };
        if ra.code != rb.code && !(ra.code < 0 && rb.code < 0) || ra.out != rb.out && ra.code == 1 {
            return Err(format!("clone of InflateState after {} calls: code {} vs {}, {} vs {} bytes", points - 1, ra.code, rb.code, ra.out.len(), rb.out.len()));
        }
        if ra.code == 1 && (ra.out != s.plain || ra.consumed != s.bytes.len()) && !s.desc.starts_with("corrupt") {
            return Err(format!("resumed clone ends with wrong result after {} calls", points - 1));
        }
        let end = ip.saturating_add(chunk).min(s.bytes.len());
        let r = inflate(&mut st, &s.bytes[ip..end], &mut buf, MZFlush::None);
        ip += r.bytes_consumed;
        out.extend_from_slice(&buf[..r.bytes_written]);
        match r.status {
            Ok(miniz_oxide::MZStatus::Ok) => {
                if r.bytes_consumed == 0 && r.bytes_written == 0 && ip == s.bytes.len() {
                    break;
                }
            }
            _ => break,
        }
    }
    Ok(points)
}

#[cfg(feature = "bb")]
mod bb {
    use super::*;
    use miniz_oxide::inflate::core::decompress;

    /// Decode with stop-on-block-boundary under the given cuts; at every stop check the record and
    /// (when `rebuild`) continue from a decoder rebuilt from the record + preceding output.
    pub fn boundary_case(s: &GenStream, cuts: &[usize], rebuild: bool) -> Result<u64, String> {
        let data = &s.bytes;
        let n = s.plain.len();
        let zf = if s.zlib { F_ZLIB } else { 0 };
        let mut r = Box::new(DecompressorOxide::new());
        let mut out = vec![0u8; n + 8];
        let (mut ip, mut op) = (0usize, 0usize);
        let mut stops: Vec<usize> = vec![];
        let mut pts: Vec<usize> = cuts.iter().cloned().filter(|&c| c < data.len()).collect();
        pts.push(data.len());
        let mut status = TINFLStatus::NeedsMoreInput;
        'o: for &p in &pts {
            loop {
                let more = if p < data.len() { F_MORE } else { 0 };
                let (st, c, w) = decompress(&mut r, &data[ip..p], &mut out, op, zf | F_FLAT | F_BB | more);
                ip += c;
                op += w;
                status = st;
                match st {
                    TINFLStatus::BlockBoundary => {
                        stops.push(op);
                        let Some(rec) = r.block_boundary_state() else {
                            return Err(format!("BlockBoundary stop #{} but block_boundary_state() is None", stops.len()));
                        };
                        if rec.num_bits >= 8 {
                            return Err(format!("boundary record has num_bits = {}", rec.num_bits));
                        }
                        if rec.num_bits > 0 {
                            if ip == 0 {
                                return Err("pending bits with no consumed byte".into());
                            }
                            let want = data[ip - 1] >> (8 - rec.num_bits);
                            if rec.bit_buf != want {
                                return Err(format!("boundary record bit_buf {:#x} != top {} bits of the last consumed byte ({:#x})", rec.bit_buf, rec.num_bits, want));
                            }
                        } else if rec.bit_buf != 0 {
                            return Err(format!("boundary record has no pending bits but bit_buf = {:#x}", rec.bit_buf));
                        }
                        if rebuild {
                            // rebuilt decoder + preceding (<= 32 KiB of) output, continue to the end in one call
                            let mut r2 = DecompressorOxide::from_block_boundary_state(&rec);
                            let keep = op.min(32768);
                            let mut out2 = vec![0u8; n + 8];
                            out2[op - keep..op].copy_from_slice(&out[op - keep..op]);
                            let mut ip2 = ip;
                            let mut op2 = op;
                            let mut st2;
                            loop {
                                let (s2, c2, w2) = decompress(&mut r2, &data[ip2..], &mut out2, op2, zf | F_FLAT);
                                ip2 += c2;
                                op2 += w2;
                                st2 = s2;
                                if s2 != TINFLStatus::HasMoreOutput || w2 == 0 {
                                    break;
                                }
                            }
                            if st2 != TINFLStatus::Done || out2[op..op2] != s.plain[op..] || op2 != n || ip2 != data.len() {
                                return Err(format!(
                                    "decoder rebuilt at stop #{} (out {}, in {}) ends {} with {} of {} bytes, consumed {} of {}",
                                    stops.len(), op, ip, status_name(st2), op2, n, ip2, data.len()
                                ));
                            }
                        }
                    }
                    TINFLStatus::NeedsMoreInput => break,
                    TINFLStatus::Done => break 'o,
                    other => return Err(format!("decode with stop-on-block-boundary returned {}", status_name(other))),
                }
            }
        }
        if status != TINFLStatus::Done || out[..op] != s.plain[..] || ip != data.len() {
            return Err(format!("stop-and-continue run ends {} with {}/{} bytes, consumed {}/{}", status_name(status), op, n, ip, data.len()));
        }
        let want: Vec<usize> = s.block_out_starts.iter().skip(1).cloned().collect();
        if stops != want {
            return Err(format!("BlockBoundary reported at output offsets {:?}, non-final blocks end at {:?} ({} blocks)", stops, want, s.nblocks));
        }
        Ok(stops.len() as u64)
    }

    /// Differential form for arbitrary (also invalid) continuations: `data` starts with valid
    /// non-final blocks; the uninterrupted decode, the stop-and-continue decode and a decoder
    /// rebuilt at every stop must end with the same status, output and consumed count.
    pub fn boundary_any_case(data: &[u8], room: usize) -> Result<u64, String> {
        boundary_any_case_h(data, room, None)
    }

    /// `history`: the uninterrupted and the stop-and-continue decoder objects have decoded these
    /// bytes before and were re-initialised (the rebuilt decoder is new by construction).
    pub fn boundary_any_case_h(data: &[u8], room: usize, history: Option<&[u8]>) -> Result<u64, String> {
        let used = |d: &mut DecompressorOxide| {
            if let Some(h) = history {
                let mut scratch = vec![0u8; 1024];
                let _ = decompress(d, h, &mut scratch, 0, F_FLAT);
                d.init();
            }
        };
        let run = |r: &mut DecompressorOxide, out: &mut Vec<u8>, mut ip: usize, mut op: usize, flags: u32| -> (TINFLStatus, usize, usize) {
            loop {
                let (st, c, w) = decompress(r, &data[ip..], out, op, flags);
                ip += c;
                op += w;
                if st != TINFLStatus::BlockBoundary {
                    return (st, ip, op);
                }
            }
        };
        let mut a = Box::new(DecompressorOxide::new());
        used(&mut a);
        let mut out_a = vec![0u8; room];
        let (sa, ia, oa) = run(&mut a, &mut out_a, 0, 0, F_FLAT);
        // stop-and-continue
        let mut b = Box::new(DecompressorOxide::new());
        used(&mut b);
        let mut out_b = vec![0u8; room];
        let (mut ip, mut op) = (0usize, 0usize);
        let mut stops = 0u64;
        loop {
            let (st, c, w) = decompress(&mut b, &data[ip..], &mut out_b, op, F_FLAT | F_BB);
            ip += c;
            op += w;
            if st != TINFLStatus::BlockBoundary {
                if (st, ip, op) != (sa, ia, oa) || out_b[..op] != out_a[..oa] {
                    return Err(format!("stop-and-continue run ends ({}, in {}, out {}), uninterrupted run ends ({}, in {}, out {})", status_name(st), ip, op, status_name(sa), ia, oa));
                }
                break;
            }
            stops += 1;
            let Some(rec) = b.block_boundary_state() else {
                return Err("BlockBoundary stop but block_boundary_state() is None".into());
            };
            let mut r2 = DecompressorOxide::from_block_boundary_state(&rec);
            let keep = op.min(32768);
            let mut out2 = vec![0u8; room];
            out2[op - keep..op].copy_from_slice(&out_b[op - keep..op]);
            let (s2, i2, o2) = run(&mut r2, &mut out2, ip, op, F_FLAT);
            if (s2, i2, o2) != (sa, ia, oa) || out2[op..o2.min(room)] != out_a[op..oa.min(room)] {
                return Err(format!("decoder rebuilt at stop #{} (in {}, out {}) ends ({}, in {}, out {}), uninterrupted run ends ({}, in {}, out {})", stops, ip, op, status_name(s2), i2, o2, status_name(sa), ia, oa));
            }
        }
        Ok(stops)
    }

    /// valid non-final first blocks (rich tables, each bit alignment) followed by every targeted
    /// rule violation of C04 and by valid final blocks: (description, bytes)
    pub fn any_streams(th: bool) -> Vec<(String, Vec<u8>)> {
        use crate::gen::{dyn_spec_for, CodeShape, StreamBuilder};
        use crate::refmodel::Token;
        let toks: Vec<Token> = vec![Token::Lit(b'a'), Token::Lit(b'b'), Token::Lit(b'c'), Token::Match { len: 3, dist: 1 }, Token::Match { len: 4, dist: 2 }, Token::Match { len: 5, dist: 3 }, Token::Match { len: 9, dist: 7 }, Token::Lit(0xfe)];
        let mut tails: Vec<(String, Vec<u8>)> = crate::props::c04::targeted_invalid_padded(None).into_iter().filter(|t| !t.2).map(|t| (t.0, t.1)).collect();
        tails.extend(crate::props::c04::targeted_invalid_padded(Some(0)).into_iter().filter(|t| !t.2 && (th || t.0.contains("undefined") || t.0.starts_with("fixed"))).map(|t| (format!("{}+zeros", t.0), t.1)));
        let mut v = vec![];
        for first in 0..4 {
            for align in 0..8usize {
                if !th && first >= 2 && align % 3 != 0 {
                    continue;
                }
                for (tn, tail) in &tails {
                    let mut b = StreamBuilder::new(None);
                    if align != 0 {
                        crate::gen::align_filler(&mut b, align);
                    }
                    match first {
                        0 => {
                            let spec = dyn_spec_for(&toks, CodeShape::Flat, CodeShape::Full).unwrap();
                            b.dynamic(&spec, &toks, false);
                        }
                        1 => {
                            let spec = dyn_spec_for(&toks, CodeShape::Full, CodeShape::ChainDeep(9)).or_else(|| dyn_spec_for(&toks, CodeShape::Full, CodeShape::Flat)).unwrap();
                            b.dynamic(&spec, &toks, false);
                        }
                        2 => {
                            b.fixed(&toks, false);
                        }
                        _ => {
                            b.stored(b"stored block", false);
                        }
                    }
                    let (bytes, _plain) = b.finish_with_raw_tail(tail);
                    v.push((format!("first={} align={} tail={}", ["dyn-full-dist", "dyn-full-litlen", "fixed", "stored"][first], align, tn), bytes));
                }
            }
        }
        v
    }

    pub fn streams(th: bool) -> Vec<GenStream> {
        let mut v = vec![];
        for z in [None, Some((7u8, 2u8))] {
            v.extend(crate::streams::block_sequences(z, if th { 4 } else { 3 }, &[0, 1, 2, 3, 4, 5, 6, 7], &crate::streams::BLOCK_KINDS[..if th { 6 } else { 5 }]));
        }
        v
    }
}

pub fn run(tier: &str) -> i32 {
    let rep = Report::new("C19", tier, "model_checking");
    let th = rep.thorough();
    let part_bb = cfg!(feature = "bb");
    let mut states = 0u64;
    let mut transitions = 0u64;
    let mut traces = 0u64;
    if !part_bb {
        let ss = snapshot_streams(th);
        let scheds: Vec<(Mode, usize, usize)> = vec![(Mode::Flat, 1, usize::MAX), (Mode::Flat, usize::MAX, 1), (Mode::Ring, 1, 1), (Mode::Flat, 3, 2), (Mode::Ring, 4, 7)];
        let res = par_for(ss.len(), || (0u64, 0u64, 0u64), |i, acc| {
            let s = &ss[i];
            watchdog::tick(i as u64, 0);
            for &(mode, chunk, budget) in &scheds {
                watchdog::pulse();
                let blen = if mode == Mode::Flat { s.plain.len().max(crate::refmodel::ref_inflate(&s.bytes, &crate::refmodel::Opts::fmt(s.zlib)).out.len()) + 32 } else { 32768 };
                match guarded(|| snapshot_case(s, mode, blen, chunk, budget)) {
                    Ok(Ok((p, st))) => {
                        acc.0 += p;
                        acc.1 += st;
                        acc.2 += 1;
                    }
                    Ok(Err(e)) => rep.violation(
                        &format!("C19/{}", if e.contains("serde") || e.contains("serialise") { "serde" } else { "clone" }),
                        format!("{} :: [{}] {:?} chunk {} budget {}", e, s.desc, mode, chunk as isize, budget as isize),
                        json!({"kind": "snapshot", "stream_hex": hex(&s.bytes), "plain_hex": hex(&s.plain), "zlib": s.zlib, "desc": s.desc, "mode": format!("{:?}", mode), "chunk": chunk.min(1 << 40), "budget": budget.min(1 << 40)}),
                    ),
                    Err(p) => rep.violation("C19/panic", format!("panic {} [{}]", p, s.desc), json!({"kind": "snapshot", "stream_hex": hex(&s.bytes), "plain_hex": hex(&s.plain), "zlib": s.zlib, "desc": s.desc, "mode": format!("{:?}", mode), "chunk": chunk.min(1 << 40), "budget": budget.min(1 << 40)})),
                }
            }
            for (chunk, room) in [(1usize, 3usize), (7, 100)] {
                if s.bytes.len() > 5000 {
                    continue;
                }
                match guarded(|| inflate_clone_case(s, chunk, room)) {
                    Ok(Ok(p)) => {
                        acc.0 += p;
                        acc.1 += 2 * p;
                        acc.2 += 1;
                    }
                    Ok(Err(e)) => rep.violation("C19/inflate-state-clone", format!("{} [{}]", e, s.desc), json!({"kind": "inflate-clone", "stream_hex": hex(&s.bytes), "plain_hex": hex(&s.plain), "zlib": s.zlib, "desc": s.desc, "chunk": chunk, "room": room})),
                    Err(p) => rep.violation("C19/panic", format!("panic {} [{}]", p, s.desc), json!({"kind": "inflate-clone", "stream_hex": hex(&s.bytes), "plain_hex": hex(&s.plain), "zlib": s.zlib, "desc": s.desc, "chunk": chunk, "room": room})),
                }
            }
        });
        for r in res {
            states += r.0;
            transitions += r.1;
            traces += r.2;
        }
        // InflateState clones after the 32 KiB window has wrapped (outputs of 40-180 KB with
        // matches reaching across the wrap), coarse schedules
        let mut bigs: Vec<GenStream> = vec![];
        bigs.extend(streams::stored_edges(None).into_iter().rev().take(1));
        bigs.extend(streams::stored_edges(Some((7, 2))).into_iter().rev().take(1));
        bigs.extend(streams::length_distance_sweeps(None, false, &[streams::Coding::Fixed], 11).into_iter().step_by(if th { 7 } else { 23 }));
        let bres = par_for(bigs.len() * 3, || (0u64, 0u64, 0u64), |ix, acc| {
            let s = &bigs[ix / 3];
            let (chunk, room) = [(4096usize, 1000usize), (usize::MAX, 4093), (1000, 32768)][ix % 3];
            watchdog::tick(800_000 + ix as u64, 0);
            match guarded(|| inflate_clone_case(s, chunk, room)) {
                Ok(Ok(p)) => {
                    acc.0 += p;
                    acc.1 += 2 * p;
                    acc.2 += 1;
                }
                Ok(Err(e)) => rep.violation("C19/inflate-state-clone", format!("{} [{}] chunk {} room {}", e, s.desc, chunk as isize, room), json!({"kind": "inflate-clone-big", "desc": s.desc, "zlib": s.zlib, "chunk": chunk.min(1 << 40), "room": room})),
                Err(p) => rep.violation("C19/panic", format!("panic {} [{}]", p, s.desc), json!({"kind": "inflate-clone-big", "desc": s.desc})),
            }
        });
        for r in bres {
            states += r.0;
            transitions += r.1;
            traces += r.2;
        }
        rep.set("snapshot_streams", json!(ss.len() + bigs.len()));
    }
    #[cfg(feature = "bb")]
    {
        let ss = bb::streams(th);
        for s in ss.iter().step_by(50) {
            if let Err(e) = crate::props::selftest::triangulate(s) {
                crate::props::selftest::machinery_fail(&e);
            }
        }
        let res = par_for(ss.len(), || (0u64, 0u64, 0u64), |i, acc| {
            let s = &ss[i];
            watchdog::tick(i as u64, 1);
            let n = s.bytes.len();
            let mut scheds: Vec<Vec<usize>> = vec![vec![], (1..n).collect()];
            for c in 1..n {
                scheds.push(vec![c]);
            }
            for cuts in scheds {
                for rebuild in [false, true] {
                    watchdog::pulse();
                    match guarded(|| bb::boundary_case(s, &cuts, rebuild)) {
                        Ok(Ok(st)) => {
                            acc.0 += st;
                            acc.1 += cuts.len() as u64 + 1;
                            acc.2 += 1;
                        }
                        Ok(Err(e)) => rep.violation(
                            &format!("C19/block-boundary/{}", if e.contains("rebuilt") { "rebuild" } else if e.contains("record") { "record" } else { "stops" }),
                            format!("{} :: [{}] cuts {:?}", e, s.desc, if cuts.len() < 4 { cuts.clone() } else { vec![] }),
                            json!({"kind": "boundary", "stream_desc": s.desc, "zlib": s.zlib, "cuts": if cuts.len() < 4 { json!(cuts) } else { json!("bytewise") }, "rebuild": rebuild}),
                        ),
                        Err(p) => rep.violation("C19/block-boundary/panic", format!("panic {} [{}]", p, s.desc), json!({"kind": "boundary", "stream_desc": s.desc, "zlib": s.zlib, "cuts": if cuts.len() < 4 { json!(cuts) } else { json!("bytewise") }, "rebuild": rebuild})),
                    }
                }
            }
        });
        for r in res {
            states += r.0;
            transitions += r.1;
            traces += r.2;
        }
        rep.set("boundary_streams", json!(ss.len()));
        // arbitrary (invalid) continuations after valid non-final blocks: rebuilt == uninterrupted
        let anys = bb::any_streams(th);
        let ares = par_for(anys.len(), || (0u64, 0u64, 0u64), |i, acc| {
            watchdog::tick(900_000 + i as u64, 1);
            let (desc, bytes) = &anys[i];
            match guarded(|| bb::boundary_any_case(bytes, 80_000)) {
                Ok(Ok(st)) => {
                    acc.0 += st;
                    acc.1 += 2 * st + 2;
                    acc.2 += 1;
                }
                Ok(Err(e)) => rep.violation(
                    &format!("C19/block-boundary/{}", if e.contains("rebuilt") { "rebuild-differs" } else { "stop-and-continue-differs" }),
                    format!("{} :: [{}]", e, desc),
                    json!({"kind": "boundary-any", "desc": desc, "stream_hex": hex(bytes)}),
                ),
                Err(p) => rep.violation("C19/block-boundary/panic", format!("panic {} [{}]", p, desc), json!({"kind": "boundary-any", "desc": desc, "stream_hex": hex(bytes)})),
            }
        });
        let mut any_stops = 0;
        for r in ares {
            states += r.0;
            transitions += r.1;
            traces += r.2;
            any_stops += r.0;
        }
        // the same comparison with decoder objects that have a history: every raw targeted violation
        // (and a complete valid stream) decoded first, then init(); continuations = valid final blocks
        let mut reused = 0u64;
        {
            use crate::gen::{dyn_spec_for, CodeShape, StreamBuilder};
            use crate::refmodel::Token;
            let toks: Vec<Token> = vec![Token::Lit(b'a'), Token::Lit(b'b'), Token::Match { len: 3, dist: 1 }, Token::Match { len: 4, dist: 2 }, Token::Lit(0xfe)];
            let mut hs: Vec<(String, Vec<u8>)> = crate::props::c04::targeted_invalid_padded(None).into_iter().filter(|t| !t.2).map(|t| (t.0, t.1)).collect();
            hs.push(("valid-stream".into(), miniz_oxide::deflate::compress_to_vec(b"a valid stream decoded earlier, a valid stream decoded earlier", 6)));
            let mut cases: Vec<(String, Vec<u8>)> = vec![];
            for first in 0..2 {
                for align in [0usize, 3] {
                    for tail in 0..3 {
                        let mut b = StreamBuilder::new(None);
                        if align != 0 {
                            crate::gen::align_filler(&mut b, align);
                        }
                        if first == 0 {
                            b.stored(b"stored block", false);
                        } else {
                            let spec = dyn_spec_for(&toks, CodeShape::Flat, CodeShape::Full).unwrap();
                            b.dynamic(&spec, &toks, false);
                        }
                        match tail {
                            0 => {
                                b.fixed(&toks, true);
                            }
                            1 => {
                                let spec = dyn_spec_for(&toks, CodeShape::ChainDeep(9), CodeShape::Flat).unwrap();
                                b.dynamic(&spec, &toks, true);
                            }
                            _ => {
                                b.stored(b"last", true);
                            }
                        }
                        cases.push((format!("first={} align={} tail={}", ["stored", "dynamic"][first], align, ["fixed", "dynamic", "stored"][tail]), b.finish().bytes));
                    }
                }
            }
            let items: Vec<(usize, usize)> = (0..hs.len()).flat_map(|h| (0..cases.len()).map(move |c| (h, c))).collect();
            let rres = par_for(items.len(), || (0u64, 0u64), |ix, acc| {
                watchdog::tick(950_000 + ix as u64, 1);
                let (hi, ci) = items[ix];
                match guarded(|| bb::boundary_any_case_h(&cases[ci].1, 4096, Some(&hs[hi].1))) {
                    Ok(Ok(st)) => {
                        acc.0 += st;
                        acc.1 += 1;
                    }
                    Ok(Err(e)) => rep.violation(
                        &format!("C19/block-boundary/{}/reused-decoder", if e.contains("rebuilt") { "rebuild-differs" } else { "stop-and-continue-differs" }),
                        format!("{} :: [{}] on decoders that had decoded [{}] and were re-initialised", e, cases[ci].0, hs[hi].0),
                        json!({"kind": "boundary-any", "desc": cases[ci].0, "stream_hex": hex(&cases[ci].1), "history_hex": hex(&hs[hi].1), "history": hs[hi].0}),
                    ),
                    Err(p) => rep.violation("C19/block-boundary/panic", format!("panic {} [{}]", p, cases[ci].0), json!({"kind": "boundary-any", "desc": cases[ci].0, "stream_hex": hex(&cases[ci].1), "history_hex": hex(&hs[hi].1)})),
                }
            });
            for r in rres {
                states += r.0;
                transitions += 2 * r.0 + 2;
                traces += r.1;
                reused += r.1;
            }
        }
        rep.set("boundary_cases_on_reused_decoders", json!(reused));
        rep.set("boundary_streams_with_invalid_continuation", json!(anys.len()));
        rep.set("boundary_stops_before_invalid_continuation", json!(any_stops));
    }
    rep.set("states", json!(states.max(1)));
    rep.set("transitions", json!(transitions.max(1)));
    rep.set("traces_validated_against_impl", json!(traces));
    rep.set("explanation", json!(if part_bb {
        "block-boundary part: every block-kind sequence up to 3/4 blocks x 8 bit alignments, raw and zlib, decoded with TINFL_FLAG_STOP_ON_BLOCK_BOUNDARY under one call / every single cut / bytewise; states = boundary stops checked (record fields, exactly-once after each non-final block) and, at each, a decoder rebuilt from the record plus preceding output continued to the end"
    } else {
        "snapshot part: at every inter-call state of 5 schedules per stream the real DecompressorOxide is cloned and serialised/deserialised (rmp-serde); the complete-state fingerprints must be equal and original, clone and serde copy are each continued under three schedules with identical (status, output, consumed, adler); InflateState is cloned at every inter-call state of two schedules; states = snapshot points"
    }));
    rep.sample(json!({"snapshot": "after call 3 of schedule (1 byte in, 1 byte out, ring 32768)", "copies": ["clone", "rmp-serde round trip"], "continued_under": [["rest", "unlimited"], [1, "unlimited"], [2, 3]]}));
    if states < 100 {
        println!("MACHINERY vacuous: states={}", states);
        rep.finish();
        return 2;
    }
    rep.finish()
}

pub fn replay(v: &Value) -> Option<String> {
    let kind = v["kind"].as_str()?;
    if kind == "boundary-any" {
        #[cfg(feature = "bb")]
        {
            let bytes = unhex(v["stream_hex"].as_str()?);
            let hist = v["history_hex"].as_str().map(unhex);
            return match guarded(|| bb::boundary_any_case_h(&bytes, 80_000, hist.as_deref())) {
                Ok(Ok(_)) => None,
                Ok(Err(e)) => Some(e),
                Err(p) => Some(format!("panic {}", p)),
            };
        }
        #[cfg(not(feature = "bb"))]
        return Some("block-boundary replays need the bb flavour: cargo build --features bb".into());
    }
    if kind == "boundary" {
        #[cfg(feature = "bb")]
        {
            let desc = v["stream_desc"].as_str()?;
            let zlib = v["zlib"].as_bool()?;
            let s = bb::streams(true).into_iter().find(|s| s.desc == desc && s.zlib == zlib)?;
            let cuts: Vec<usize> = match v["cuts"].as_array() {
                Some(a) => a.iter().filter_map(|x| x.as_u64().map(|y| y as usize)).collect(),
                None => (1..s.bytes.len()).collect(),
            };
            return match guarded(|| bb::boundary_case(&s, &cuts, v["rebuild"].as_bool().unwrap_or(true))) {
                Ok(Ok(_)) => None,
                Ok(Err(e)) => Some(e),
                Err(p) => Some(format!("panic {}", p)),
            };
        }
        #[cfg(not(feature = "bb"))]
        return Some("block-boundary replays need the bb flavour: cargo build --features bb".into());
    }
    let s = GenStream {
        bytes: unhex(v["stream_hex"].as_str()?),
        plain: unhex(v["plain_hex"].as_str()?),
        deflate_bits: 0,
        zlib: v["zlib"].as_bool()?,
        desc: v["desc"].as_str().unwrap_or("").into(),
        nblocks: 0,
        block_starts: vec![],
        block_out_starts: vec![],
    };
    if kind == "inflate-clone" {
        return match guarded(|| inflate_clone_case(&s, v["chunk"].as_u64().unwrap() as usize, v["room"].as_u64().unwrap() as usize)) {
            Ok(Ok(_)) => None,
            Ok(Err(e)) => Some(e),
            Err(p) => Some(format!("panic {}", p)),
        };
    }
    let mode = if v["mode"].as_str()? == "Flat" { Mode::Flat } else { Mode::Ring };
    let chunk = v["chunk"].as_u64()? as usize;
    let budget = v["budget"].as_u64()? as usize;
    let chunk = if chunk >= 1 << 40 { usize::MAX } else { chunk };
    let budget = if budget >= 1 << 40 { usize::MAX } else { budget };
    let blen = if mode == Mode::Flat { s.plain.len().max(crate::refmodel::ref_inflate(&s.bytes, &crate::refmodel::Opts::fmt(s.zlib)).out.len()) + 32 } else { 32768 };
    match guarded(|| snapshot_case(&s, mode, blen, chunk, budget)) {
        Ok(Ok(_)) => None,
        Ok(Err(e)) => Some(e),
        Err(p) => Some(format!("panic {}", p)),
    }
}
