//! C14: streaming deflate obeys its status protocol and always makes progress.
//! S-hist on the real `CompressorOxide` through `deflate()`, alphabet
//! chunk {0,1,rest} x room {0,1,5,large} x flush {None,Sync,Full,Finish,Partial}.
use crate::drv::*;
use crate::evidence::Report;
use crate::explore::{Dfs, Model, Stats};
use crate::props::c01::Cfg;
use crate::refmodel::{ref_inflate, Opts};
use crate::util::{hex, par_for, unhex, H128};
use crate::zlibffi::z_inflate;
use crate::{corpus, guarded, watchdog};
use miniz_oxide::deflate::core::CompressorOxide;
use miniz_oxide::deflate::stream::deflate;
use miniz_oxide::MZFlush;
use serde_json::{json, Value};
use std::collections::BTreeMap;
use std::hash::Hasher;
use std::sync::Mutex;

const LARGE: u32 = 200_000;
pub const CHUNKS: [u32; 3] = [0, 1, u32::MAX];
pub const ROOMS: [u32; 4] = [0, 1, 5, LARGE];
pub const FLUSHES: [MZFlush; 5] = [MZFlush::None, MZFlush::Sync, MZFlush::Full, MZFlush::Finish, MZFlush::Partial];

#[derive(Clone, Copy, Debug, PartialEq, Eq)]
pub struct Act {
    pub k: u32,
    pub room: u32,
    pub flush: u8,
}

#[derive(Clone)]
pub struct St {
    pub c: Box<CompressorOxide>,
    pub ip: usize,
    pub out: Vec<u8>,
    pub finish_seen: bool,
    /// end of input declared by the first Finish call
    pub declared: Option<usize>,
    pub ended: bool,
    pub errored: bool,
    pub idle: u8,
    pub bad: bool,
    pub calls: u32,
    /// input offset at which the current stream started (moves at every reset())
    pub base: usize,
}

/// pseudo flush index: the action is CompressorOxide::reset() - the stream in progress (finished,
/// abandoned, pending or in the error state) is dropped and a new one starts with the remaining input
pub const RESET: u8 = 5;

#[cfg(feature = "hooks")]
fn comp_fp(c: &CompressorOxide, h: &mut H128) {
    c.verif_hash(h);
}
#[cfg(not(feature = "hooks"))]
fn comp_fp(_c: &CompressorOxide, _h: &mut H128) {}

pub struct DefModel<'a> {
    pub input: &'a [u8],
    pub name: &'a str,
    pub cfg: Cfg,
    pub rep: &'a Report,
    pub cov: Mutex<BTreeMap<&'static str, u64>>,
    pub check_side_effects: bool,
}

impl<'a> DefModel<'a> {
    pub fn init(&self) -> St {
        St { c: Box::new(self.cfg.make()), ip: 0, out: vec![], finish_seen: false, declared: None, ended: false, errored: false, idle: 0, bad: false, calls: 0, base: 0 }
    }
    fn rp(&self, path: &[Act]) -> Value {
        json!({"input_hex": hex(self.input), "input_name": self.name, "cfg": self.cfg.to_json(),
               "schedule": path.iter().map(|a| json!([if a.k == u32::MAX { -1 } else { a.k as i64 }, a.room, a.flush])).collect::<Vec<_>>()})
    }
    fn viol(&self, site: &str, what: String, path: &[Act]) {
        self.rep.violation(&format!("C14/{}", site), format!("{} :: {} on {} after {} calls", what, self.cfg.name(), self.name, path.len()), self.rp(path));
    }
    fn count(&self, k: &'static str) {
        *self.cov.lock().unwrap().entry(k).or_insert(0) += 1;
    }
    fn fp(&self, s: &St) -> u128 {
        let mut h = H128::new();
        comp_fp(&s.c, &mut h);
        h.finish128()
    }
}

impl<'a> Model for DefModel<'a> {
    type S = St;
    type A = Act;

    fn actions(&self, s: &St, out: &mut Vec<Act>) {
        if s.idle >= 2 {
            out.push(Act { k: u32::MAX, room: LARGE, flush: 3 });
            return;
        }
        for f in 0..FLUSHES.len() as u8 {
            for &k in &CHUNKS {
                for &room in &ROOMS {
                    out.push(Act { k, room, flush: f });
                }
            }
        }
        out.push(Act { k: 0, room: 0, flush: RESET });
    }

    fn step(&self, s: &mut St, a: Act, path: &[Act]) -> bool {
        watchdog::pulse();
        if a.flush == RESET {
            // after reset() the object must behave like a new one: the model simply starts over
            self.count("resets");
            s.c.reset();
            s.base = s.ip;
            s.out.clear();
            s.finish_seen = false;
            s.declared = None;
            s.ended = false;
            s.errored = false;
            s.calls += 1;
            s.idle += 1;
            return true;
        }
        let flush = FLUSHES[a.flush as usize];
        let limit = s.declared.unwrap_or(self.input.len());
        let left = limit - s.ip;
        // after the first Finish every legal call re-offers exactly what is left of the declared input
        let k = if s.finish_seen { left } else if a.k == u32::MAX { left } else { (a.k as usize).min(left) };
        let room = a.room as usize;
        let mut buf = vec![0x77u8; room];
        let before = if self.check_side_effects && HOOKS && room == 0 { Some(self.fp(s)) } else { None };
        let r = match guarded(|| deflate(&mut s.c, &self.input[s.ip..s.ip + k], &mut buf, flush)) {
            Ok(r) => r,
            Err(p) => {
                self.viol("panic", format!("deflate() panicked: {}", p), path);
                s.bad = true;
                return false;
            }
        };
        s.calls += 1;
        let code = mzres_code(&r.status);
        macro_rules! fail {
            ($site:expr, $($arg:tt)*) => {{
                self.viol($site, format!($($arg)*), path);
                s.bad = true;
                return false;
            }};
        }
        if r.bytes_consumed > k || r.bytes_written > room {
            fail!("counts", "consumed {} of {}, wrote {} of {}", r.bytes_consumed, k, r.bytes_written, room);
        }
        // (no canary beyond bytes_written: the property bounds the *reported* counts; the offered
        // buffer is the callee's to scribble on, and flush_block does use it as scratch space)
        let progressed = r.bytes_consumed > 0 || r.bytes_written > 0;
        // an empty output buffer is refused without side effects
        if room == 0 {
            self.count("empty_output_calls");
            if code != -5 || progressed {
                fail!("empty-output-not-refused", "empty output buffer answered {} (consumed {})", mzres_name(&r.status), r.bytes_consumed);
            }
            if let Some(b) = before {
                if self.fp(s) != b {
                    fail!("empty-output-side-effect", "refused call with an empty output buffer changed the compressor state");
                }
            }
            s.idle += 1;
            return true;
        }
        s.ip += r.bytes_consumed;
        s.out.extend_from_slice(&buf[..r.bytes_written]);
        if s.errored {
            // after a reported misuse the object stays unusable; nothing may be emitted
            if code >= 0 || progressed {
                fail!("error-not-sticky", "call after an error result answered {} (consumed {}, wrote {})", mzres_name(&r.status), r.bytes_consumed, r.bytes_written);
            }
            s.idle += 1;
            return true;
        }
        if s.ended {
            self.count("after_end_calls");
            let ok = if flush == MZFlush::Finish { code == 1 && !progressed } else { code == -5 && !progressed };
            if !ok {
                fail!("after-end", "after StreamEnd, flush {} answered {} (consumed {}, wrote {})", a.flush, mzres_name(&r.status), r.bytes_consumed, r.bytes_written);
            }
            s.idle += 1;
            return true;
        }
        if s.finish_seen && flush != MZFlush::Finish {
            self.count("non_finish_after_finish");
            if code >= 0 {
                fail!("non-finish-after-finish-accepted", "non-Finish call (flush {}) after Finish answered {} instead of an error", a.flush, mzres_name(&r.status));
            }
            if progressed {
                fail!("non-finish-after-finish-side-effect", "rejected non-Finish call after Finish consumed {} / wrote {}", r.bytes_consumed, r.bytes_written);
            }
            s.errored = true;
            s.idle += 1;
            return true;
        }
        if flush == MZFlush::Finish && !s.finish_seen {
            s.finish_seen = true;
            s.declared = Some(s.ip - r.bytes_consumed + k);
        }
        match code {
            1 => {
                self.count("stream_end");
                if flush != MZFlush::Finish {
                    fail!("stream-end-without-finish", "StreamEnd on a call with flush {}", a.flush);
                }
                s.ended = true;
                // everything delivered: the output is one complete stream for the consumed input
                let want = &self.input[s.base..s.declared.unwrap()];
                if s.ip != s.declared.unwrap() {
                    fail!("stream-end-input-left", "StreamEnd with {} of {} declared input bytes consumed", s.ip - s.base, want.len());
                }
                let mut o = Opts::fmt(self.cfg.zlib);
                o.strict_producer = true;
                o.keep_tokens = false;
                let t = ref_inflate(&s.out, &o);
                if !t.is_complete() || t.consumed != s.out.len() || t.out != want {
                    fail!("stream-end-bad-stream", "at StreamEnd the delivered {} bytes are not a complete stream for the input: {:?}, {} bytes out, ends at {}", s.out.len(), t.verdict, t.out.len(), t.consumed);
                }
                if s.calls % 7 == 0 {
                    let z = z_inflate(&s.out, if self.cfg.zlib { 15 } else { -15 }, 1 << 16, want.len() + 64);
                    if !z.end || z.out != want {
                        fail!("stream-end-zlib-rejects", "system zlib rejects the delivered stream (code {})", z.code);
                    }
                }
            }
            0 => {
                if flush == MZFlush::Finish && r.bytes_written != room {
                    fail!("finish-returned-early", "Finish returned Ok with {} of {} output bytes used (must end the stream or fill the buffer)", r.bytes_written, room);
                }
                if (k > 0 || flush != MZFlush::None) && !progressed {
                    fail!("no-progress", "Ok without progress: {} input bytes, flush {}, room {}", k, a.flush, room);
                }
            }
            -5 => {
                self.count("buf_errors");
                // Buf with room: only "no input, no flush request"
                if k > 0 || flush != MZFlush::None {
                    fail!("spurious-buf", "Buf with room {} and input {} / flush {}", room, k, a.flush);
                }
            }
            other => fail!("unexpected-status", "unexpected result {} ({}) on a legal call (flush {}, input {}, room {})", other, mzres_name(&r.status), a.flush, k, room),
        }
        s.idle = if progressed { 0 } else { s.idle + 1 };
        true
    }

    fn fingerprint(&self, s: &St) -> Option<u128> {
        if !HOOKS {
            return None;
        }
        let mut h = H128::new();
        comp_fp(&s.c, &mut h);
        h.write_usize(s.ip);
        h.write_usize(s.out.len());
        h.write_u8(s.finish_seen as u8 | (s.ended as u8) << 1 | (s.errored as u8) << 2);
        h.write_usize(s.declared.unwrap_or(usize::MAX));
        h.write_usize(s.base);
        h.write_u8(s.idle);
        Some(h.finish128())
    }

    fn terminal(&self, s: &St) -> bool {
        s.bad || s.idle >= 3
    }

    fn at_end(&self, s: &St, path: &[Act]) {
        if s.bad || s.ended || s.errored {
            return;
        }
        // "repeating Finish terminates", from this reachable state, with a tiny and a large buffer
        // one of the three buffer sizes per state, chosen by the path (all three are met many times)
        let pick = path.iter().fold(0usize, |h, a| h.wrapping_mul(31).wrapping_add(a.k as usize ^ a.room as usize ^ a.flush as usize)) % 3;
        let room = [if self.input.len() <= 100 { 1usize } else { 5 }, 5, LARGE as usize][pick];
        if let Err(e) = self.finish_loop(s, room) {
            self.viol("finish-loop", e, path);
        }
    }

    fn complete(&self, _s: &mut St, _path: &mut Vec<Act>) {}
}

impl<'a> DefModel<'a> {
    /// Repeating Finish with `room`-byte buffers from state `s`: must reach StreamEnd within the call
    /// bound, and everything delivered must then be one complete stream that decodes to the input.
    pub fn finish_loop(&self, s: &St, room: usize) -> Result<Vec<u8>, String> {
        let mut c = s.c.clone();
        let mut ip = s.ip;
        let mut out = s.out.clone();
        let end = s.declared.unwrap_or(self.input.len());
        let mut buf = vec![0u8; room];
        let bound = (self.input.len() * 2 + out.len() + 400) / room.min(64) + 64;
        let mut calls = 0;
        let mut code;
        loop {
            let r = deflate(&mut c, &self.input[ip..end], &mut buf, MZFlush::Finish);
            ip += r.bytes_consumed.min(end - ip);
            out.extend_from_slice(&buf[..r.bytes_written.min(room)]);
            code = mzres_code(&r.status);
            calls += 1;
            if code != 0 || calls > bound {
                break;
            }
        }
        self.count("finish_loops");
        let mut o = Opts::fmt(self.cfg.zlib);
        o.keep_tokens = false;
        let ok = code == 1 && {
            let t = ref_inflate(&out, &o);
            t.is_complete() && t.consumed == out.len() && t.out == self.input[s.base..end]
        };
        if !ok {
            return Err(format!("repeating Finish with {}-byte buffers from this state: code {} after {} calls (bound {}), or the result does not decode to the input", room, code, calls, bound));
        }
        Ok(out)
    }
}

pub fn inputs() -> Vec<(String, Vec<u8>)> {
    let med = corpus::medium_inputs();
    vec![
        ("empty".into(), vec![]),
        ("one".into(), vec![0x41]),
        ("hello".into(), b"Hello zlib!".to_vec()),
        ("rep300".into(), med[0].data[..300].to_vec()),
        ("rand100".into(), corpus::shape_named("R100", &[(crate::gen::Seg::R, 100)]).data),
        ("zeros600".into(), vec![0u8; 600]),
    ]
}

pub fn cfgs() -> Vec<Cfg> {
    vec![
        Cfg { level: 6, strat: 0, zlib: true, wbits: 15, ctor: 1 },
        Cfg { level: 1, strat: 0, zlib: false, wbits: 15, ctor: 1 },
        Cfg { level: 0, strat: 0, zlib: true, wbits: 15, ctor: 1 },
        Cfg { level: 9, strat: 4, zlib: false, wbits: 15, ctor: 0 },
    ]
}

pub fn run(tier: &str) -> i32 {
    let rep = Report::new("C14", tier, "model_checking");
    let th = rep.thorough();
    let ins = inputs();
    let long = corpus::shape_named("long:T70000", &[(crate::gen::Seg::T, 70000)]);
    // incompressible inputs whose last byte is the one that makes the compressor cut a block by
    // itself (31 KiB + 1, and twice that): the end of the input and an internal block boundary coincide
    let edge: Vec<corpus::Input> = vec![
        corpus::shape_named("long:R31745", &[(crate::gen::Seg::R, 31745)]),
        corpus::shape_named("long:R63490", &[(crate::gen::Seg::R, 63490)]),
        corpus::shape_named("long:R31744", &[(crate::gen::Seg::R, 31744)]),
    ];
    let cf = cfgs();
    let depth = if th { 4 } else { 3 };
    // work items: (input, cfg, first action) so one exploration is split 60 ways
    let nact = FLUSHES.len() * CHUNKS.len() * ROOMS.len() + 1;
    let mut items: Vec<(usize, usize, usize)> = vec![];
    for i in 0..=ins.len() + edge.len() {
        for c in 0..cf.len() {
            if i == ins.len() && c > 1 {
                continue;
            }
            // edge inputs: levels 6 (zlib), 0 (zlib) and 9/Fixed (raw)
            if i > ins.len() && c == 1 {
                continue;
            }
            for a in 0..nact {
                items.push((i, c, a));
            }
        }
    }
    let res = par_for(items.len(), || (Stats::default(), BTreeMap::<&'static str, u64>::new()), |ix, acc| {
        let (i, c, a0) = items[ix];
        watchdog::tick(ix as u64, 0);
        // quick: full depth on a diagonal of (input, configuration) pairs, one level less elsewhere
        let deep = th || (i + c) % 4 == 0;
        let (name, data, d) = if i < ins.len() {
            (ins[i].0.as_str(), &ins[i].1[..], if deep { depth } else { depth - 1 })
        } else if i == ins.len() {
            (long.name.as_str(), &long.data[..], 2)
        } else {
            let e = &edge[i - ins.len() - 1];
            (e.name.as_str(), &e.data[..], 2)
        };
        let m = DefModel { input: data, name, cfg: cf[c], rep: &rep, cov: Mutex::new(BTreeMap::new()), check_side_effects: true };
        let mut all = vec![];
        m.actions(&m.init(), &mut all);
        let first = all[a0];
        let mut s = m.init();
        let path = vec![first];
        acc.0.transitions += 1;
        if m.step(&mut s, first, &path) {
            let mut dfs = Dfs::new(&m, false, d - 1, u64::MAX);
            dfs.run(s);
            acc.0.merge(&dfs.stats);
        }
        for (k, v) in m.cov.lock().unwrap().iter() {
            *acc.1.entry(k).or_insert(0) += v;
        }
    });
    // ---- block-fit capacities: the Finish loop with buffers whose size is the exact byte position at
    // which the compressor's own first / second block ends in the output (-3..=+3): a block handed
    // over while the caller's buffer is full to the byte
    let mut fit_inputs: Vec<corpus::Input> = vec![long.clone(), corpus::shape_named("long:R40000", &[(crate::gen::Seg::R, 40000)]), corpus::shape_named("long:H70000", &[(crate::gen::Seg::H, 70000)])];
    fit_inputs.extend(edge.iter().cloned());
    let mut fit_items: Vec<(usize, usize)> = vec![];
    for i in 0..fit_inputs.len() {
        for c in 0..cf.len() {
            fit_items.push((i, c));
        }
    }
    let fit = par_for(fit_items.len(), || 0u64, |ix, acc| {
        let (i, c) = fit_items[ix];
        watchdog::tick(5_000_000 + ix as u64, 0);
        let inp = &fit_inputs[i];
        let m = DefModel { input: &inp.data, name: inp.name.as_str(), cfg: cf[c], rep: &rep, cov: Mutex::new(BTreeMap::new()), check_side_effects: false };
        let s0 = m.init();
        let pilot = match guarded(|| m.finish_loop(&s0, LARGE as usize)) {
            Ok(Ok(o)) => o,
            Ok(Err(e)) => {
                m.viol("finish-loop", e, &[]);
                return;
            }
            Err(p) => {
                m.viol("panic", format!("panic {}", p), &[]);
                return;
            }
        };
        let mut o = Opts::fmt(cf[c].zlib);
        o.keep_tokens = false;
        let t = ref_inflate(&pilot, &o);
        let mut caps: Vec<usize> = vec![];
        for b in t.blocks.iter().filter(|b| !b.bfinal).take(2) {
            for d in -3i64..=3 {
                let v = (b.end_bit / 8) as i64 + d;
                if v > 0 {
                    caps.push(v as usize);
                }
            }
        }
        caps.dedup();
        for cap in caps {
            *acc += 1;
            match guarded(|| m.finish_loop(&s0, cap)) {
                Ok(Ok(_)) => {}
                Ok(Err(e)) => rep.violation("C14/finish-loop/block-fit", format!("{} :: {} on {}", e, cf[c].name(), inp.name), json!({"block_fit": true, "input": inp.name, "cfg": c, "cap": cap})),
                Err(p) => rep.violation("C14/panic", format!("panic {} :: block-fit capacity {} {} on {}", p, cap, cf[c].name(), inp.name), json!({"block_fit": true, "input": inp.name, "cfg": c, "cap": cap})),
            }
        }
    });
    rep.set("block_fit_finish_loops", json!(fit.iter().sum::<u64>()));
    let mut total = Stats::default();
    let mut cov: BTreeMap<&'static str, u64> = BTreeMap::new();
    for (s, c) in res {
        total.merge(&s);
        for (k, v) in c {
            *cov.entry(k).or_insert(0) += v;
        }
    }
    rep.set("states", json!(total.states));
    rep.set("transitions", json!(total.transitions));
    rep.set("traces_validated_against_impl", json!(total.executions));
    rep.set("full_depth_completed", json!(depth));
    rep.set("inputs", json!(ins.iter().map(|i| i.0.clone()).chain(std::iter::once(long.name.clone())).collect::<Vec<_>>()));
    rep.set("configurations", json!(cf.iter().map(|c| c.name()).collect::<Vec<_>>()));
    rep.set("protocol_events", json!(cov));
    rep.set("explanation", json!("alphabet = chunk {0,1,rest} x room {0,1,5,large} x flush {None,Sync,Full,Finish,Partial} (60 actions) plus CompressorOxide::reset() (the model starts over: a reset object must answer like a new one) on the real CompressorOxide through deflate(); every action sequence to the stated depth (no dedup; states = nodes of the execution tree); per-transition protocol model: counts, empty output refused without state change (complete-state fingerprint), progress, Finish returns only at StreamEnd or with the buffer full, StreamEnd only after Finish and with a complete decodable stream, stability after the end, non-Finish after Finish is an error without side effects; at every cut state the Finish loop with 1/5/large-byte buffers must terminate with a stream that decodes to the declared input"));
    rep.sample(json!({"input": "hello", "cfg": cf[0].name(), "schedule": [[1, 5, "Sync"], [0, 1, "Finish"], [-1, 200000, "Finish"]], "meaning": "[input bytes offered (-1 = rest), output room, flush]"}));
    let g = |k: &str| cov.get(k).copied().unwrap_or(0);
    if total.transitions < 50_000 || g("stream_end") == 0 || g("non_finish_after_finish") == 0 || g("finish_loops") == 0 || g("empty_output_calls") == 0 || g("resets") == 0 {
        println!("MACHINERY vacuous: transitions={} events={:?}", total.transitions, cov);
        rep.finish();
        return 2;
    }
    rep.finish()
}

pub fn replay(v: &Value) -> Option<String> {
    if v.get("block_fit").is_some() {
        let name = v["input"].as_str()?;
        let n: usize = name[6..].parse().ok()?;
        let seg = match &name[5..6] { "T" => crate::gen::Seg::T, "H" => crate::gen::Seg::H, _ => crate::gen::Seg::R };
        let inp = corpus::shape_named(name, &[(seg, n)]);
        let cf = cfgs();
        let rep = Report::new("C14", "quick", "model_checking");
        let m = DefModel { input: &inp.data, name, cfg: cf[v["cfg"].as_u64()? as usize], rep: &rep, cov: Mutex::new(BTreeMap::new()), check_side_effects: false };
        let cap = v["cap"].as_u64()? as usize;
        return match guarded(|| m.finish_loop(&m.init(), cap)) {
            Ok(Ok(_)) => None,
            Ok(Err(e)) => Some(e),
            Err(p) => Some(format!("panic {}", p)),
        };
    }
    let input = unhex(v["input_hex"].as_str()?);
    let cfg = Cfg::from_json(&v["cfg"]);
    let rep = Report::new("C14", "quick", "model_checking");
    let m = DefModel { input: &input, name: "replay", cfg, rep: &rep, cov: Mutex::new(BTreeMap::new()), check_side_effects: true };
    let mut s = m.init();
    let mut path = vec![];
    for a in v["schedule"].as_array()? {
        let k = a[0].as_i64()?;
        let act = Act { k: if k < 0 { u32::MAX } else { k as u32 }, room: a[1].as_u64()? as u32, flush: a[2].as_u64()? as u8 };
        path.push(act);
        if !m.step(&mut s, act, &path) {
            break;
        }
    }
    m.at_end(&s, &path);
    if rep.violation_count() > 0 {
        Some(format!("{} violation(s) replaying {} calls", rep.violation_count(), path.len()))
    } else {
        None
    }
}
