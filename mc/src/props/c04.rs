//! C04: the decoder never reports success on an invalid stream, and never rejects a proper
//! prefix of a valid stream as corrupt. Exhaustive short-string and single-fault enumeration,
//! each under several chunkings and both memory models, against the reference decoder.
use crate::drv::*;
use crate::evidence::Report;
use crate::gen::{BitWriter, GenStream, StreamBuilder};
use crate::refmodel::*;
use crate::util::{hex, par_for, unhex};
use crate::zlibffi::z_inflate;
use crate::{corpus, guarded, watchdog};
use miniz_oxide::inflate::TINFLStatus;
use serde_json::{json, Value};
use std::collections::{BTreeMap, BTreeSet, HashSet};

#[derive(Clone, Copy, Debug, PartialEq, Eq)]
pub enum Chunking {
    OneCall,
    OneCallMore,
    Cut(usize),
    Bytewise,
}

#[derive(Clone, Copy, Debug, PartialEq, Eq)]
pub struct MemCfg {
    pub mode: Mode,
    pub len: usize,
}

fn ref_opts(zlib: bool, mem: MemCfg, fill: u8) -> Opts {
    let mut o = Opts::fmt(zlib);
    o.keep_tokens = false;
    o.max_out = 1 << 22;
    if mem.mode == Mode::Ring {
        o.mem = Mem::Ring { contents: vec![fill; mem.len], start: 0 };
    }
    o
}

pub fn decode(data: &[u8], zlib: bool, mem: MemCfg, ch: Chunking, fill: u8) -> DecResult {
    let f = if zlib { F_ZLIB } else { 0 };
    match ch {
        Chunking::OneCall => run_cuts(data, mem.mode, mem.len, f, &[], false, fill),
        Chunking::OneCallMore => run_cuts(data, mem.mode, mem.len, f, &[], true, fill),
        Chunking::Cut(c) => run_cuts(data, mem.mode, mem.len, f, &[c], false, fill),
        Chunking::Bytewise => {
            let cuts: Vec<usize> = (1..data.len()).collect();
            run_cuts(data, mem.mode, mem.len, f, &cuts, false, fill)
        }
    }
}

/// What is known about the input independently of the crate.
#[derive(Clone, Copy, PartialEq, Eq, Debug)]
pub enum Known {
    /// nothing beyond the reference verdict
    Nothing,
    /// a proper prefix of a stream all oracle parties accept
    ProperPrefix,
}

#[derive(Default)]
pub struct Acc {
    pub evals: u64,
    pub classes: BTreeMap<&'static str, u64>,
    pub fail_states: BTreeSet<&'static str>,
    pub distinct: HashSet<u128>,
    pub prefix_checks: u64,
    pub invalid_reasons: BTreeSet<&'static str>,
}

/// The C04 oracle for one (input, memory model, chunking).
pub fn check_one(data: &[u8], zlib: bool, mem: MemCfg, ch: Chunking, known: Known, acc: &mut Acc) -> Result<(), (String, String)> {
    let fill = 0xC3u8;
    acc.evals += 1;
    let r = match guarded(|| decode(data, zlib, mem, ch, fill)) {
        Ok(r) => r,
        Err(p) => return Err(("panic".into(), format!("decode panicked: {}", p))),
    };
    if r.status == TINFLStatus::Done {
        // the consumed bytes must form a valid stream in the same memory model, same output
        let t = ref_inflate(&data[..r.consumed.min(data.len())], &ref_opts(zlib, mem, fill));
        match &t.verdict {
            Verdict::Complete if t.consumed == r.consumed && t.out == r.out => {
                *acc.classes.entry("done-valid").or_insert(0) += 1;
            }
            Verdict::Complete => {
                return Err((
                    "done-differs".into(),
                    format!("Done with {} bytes out / {} consumed, reference says {} bytes out / {} consumed", r.out.len(), r.consumed, t.out.len(), t.consumed),
                ));
            }
            Verdict::TooBig => {}
            v => {
                let why = match v {
                    Verdict::Invalid(w) => *w,
                    Verdict::Starved(w) => *w,
                    _ => "?",
                };
                return Err((format!("accepts-invalid/{}", why.replace(' ', "-")), format!("Done on a stream the reference classes {:?} (consumed {}, {} bytes out)", v, r.consumed, r.out.len())));
            }
        }
    } else {
        // "never accepted, under any buffer schedule": a caller that simply calls again after a
        // failure must not be told Done either
        if r.status == TINFLStatus::Failed && ch == Chunking::OneCall {
            let again = guarded(|| {
                let mut d = DecDrv::new(mem.mode, mem.len, if zlib { F_ZLIB } else { 0 }, fill);
                d.step(data, usize::MAX, usize::MAX);
                let a = d.step(data, 0, usize::MAX).status;
                let b = d.step(data, 0, usize::MAX).status;
                (a, b)
            });
            match again {
                Ok((a, b)) if a == TINFLStatus::Done || b == TINFLStatus::Done => {
                    return Err(("accepts-after-failure".into(), format!("first call Failed, repeated calls answer {} then {}", status_name(a), status_name(b))));
                }
                Err(p) => return Err(("panic".into(), format!("call after failure panicked: {}", p))),
                _ => {}
            }
        }
        let t = ref_inflate(data, &ref_opts(zlib, mem, fill));
        match &t.verdict {
            Verdict::Complete => {
                // a complete valid stream (possibly followed by trailing bytes) must be accepted
                if !(r.status == TINFLStatus::HasMoreOutput && mem.mode == Mode::Flat) {
                    return Err((
                        format!("rejects-valid/{}", status_name(r.status)),
                        format!("status {} on a stream the reference accepts ({} bytes out, {} consumed)", status_name(r.status), t.out.len(), t.consumed),
                    ));
                }
            }
            Verdict::Invalid(w) => {
                acc.invalid_reasons.insert(w);
                *acc.classes.entry("invalid-rejected").or_insert(0) += 1;
            }
            _ => {
                *acc.classes.entry("starved").or_insert(0) += 1;
            }
        }
        if known == Known::ProperPrefix {
            acc.prefix_checks += 1;
            let ok = match ch {
                Chunking::OneCallMore => r.status == TINFLStatus::NeedsMoreInput || r.status == TINFLStatus::HasMoreOutput,
                _ => r.status == TINFLStatus::FailedCannotMakeProgress || r.status == TINFLStatus::HasMoreOutput,
            };
            if !ok {
                return Err((
                    format!("prefix-rejected/{}", status_name(r.status)),
                    format!("proper prefix of a valid stream answered {} ({:?})", status_name(r.status), ch),
                ));
            }
        }
    }
    Ok(())
}


/// The same oracle through the streaming wrapper: whatever the schedule (a first-call Finish with
/// too little room followed by more Finish calls included), StreamEnd is only acceptable if the
/// consumed bytes are a Complete stream for the reference decoder and the delivered bytes are its
/// output; a Complete stream driven by the usual None loop must reach StreamEnd.
pub fn check_wrapper(data: &[u8], zlib: bool, acc: &mut Acc) -> Result<(), (String, String)> {
    use miniz_oxide::inflate::stream::{inflate, InflateState};
    use miniz_oxide::{DataFormat, MZFlush};
    let fmts: Vec<(DataFormat, bool)> = if zlib { vec![(DataFormat::Zlib, true), (DataFormat::ZLibIgnoreChecksum, false)] } else { vec![(DataFormat::Raw, false)] };
    for (fmt, check_adler) in fmts {
        let mut o = Opts::fmt(zlib);
        o.keep_tokens = false;
        o.check_adler = check_adler;
        o.max_out = 1 << 22;
        // the wrapper decodes into a zero-filled 32 KiB ring (or, on a first-call Finish, into the caller's flat buffer)
        let t_flat = ref_inflate(data, &o);
        let mut o2 = o.clone();
        o2.mem = Mem::Ring { contents: vec![0; 32768], start: 0 };
        let t_ring = ref_inflate(data, &o2);
        let n = t_flat.out.len().max(t_ring.out.len());
        for sched in 0..5 {
            acc.evals += 1;
            let r = guarded(|| {
                let mut st = InflateState::new_boxed(fmt);
                let mut out: Vec<u8> = vec![];
                let mut ip = 0usize;
                let mut code = 0;
                let mut calls = 0;
                loop {
                    let (k, room, fl) = match sched {
                        0 => (data.len() - ip, if calls == 0 { 1 } else { n + 64 }, MZFlush::Finish),
                        1 => (data.len() - ip, if calls == 0 { n / 2 + 1 } else { n + 64 }, MZFlush::Finish),
                        2 => (1.min(data.len() - ip), 1, MZFlush::None),
                        3 => (data.len() - ip, n + 64, MZFlush::None),
                        _ => (data.len() - ip, 7, if calls == 0 { MZFlush::None } else { MZFlush::Finish }),
                    };
                    let mut buf = vec![0u8; room];
                    let r = inflate(&mut st, &data[ip..ip + k], &mut buf, fl);
                    if r.bytes_consumed > k || r.bytes_written > room {
                        return Err("counts out of range".to_string());
                    }
                    ip += r.bytes_consumed;
                    out.extend_from_slice(&buf[..r.bytes_written]);
                    code = mzres_code(&r.status);
                    calls += 1;
                    let progressed = r.bytes_consumed > 0 || r.bytes_written > 0;
                    if code == 1 || code == -3 || code == -2 || code == -10000 {
                        break;
                    }
                    if code == -5 && !progressed && !(fl == MZFlush::None && ip < data.len()) {
                        break;
                    }
                    if calls > 4 * (data.len() + n) + 64 {
                        break;
                    }
                }
                Ok((code, out, ip, calls))
            });
            let (code, out, ip, _calls) = match r {
                Ok(Ok(x)) => x,
                Ok(Err(e)) => return Err(("wrapper-counts".into(), e)),
                Err(p) => return Err(("panic".into(), format!("inflate() panicked: {}", p))),
            };
            if code == 1 {
                // the first-call-Finish schedules decode flat, the others into the ring
                let t = if sched <= 1 && out.len() <= (if sched == 0 { 1 } else { n / 2 + 1 }) { &t_flat } else if sched <= 1 { &t_ring } else { &t_ring };
                let ok_flat = matches!(t_flat.verdict, Verdict::Complete) && t_flat.consumed == ip && t_flat.out == out;
                let ok_ring = matches!(t_ring.verdict, Verdict::Complete) && t_ring.consumed == ip && t_ring.out == out;
                let _ = t;
                if !(ok_flat || ok_ring) {
                    return Err((
                        format!("wrapper-accepts/{}", if matches!(t_ring.verdict, Verdict::Complete) { "wrong-output" } else { "invalid" }),
                        format!("inflate() ({:?}, schedule {}) reported StreamEnd with {} bytes out / {} consumed; the reference says {:?} with {} bytes out / {} consumed", fmt as i32, sched, out.len(), ip, t_ring.verdict, t_ring.out.len(), t_ring.consumed),
                    ));
                }
                *acc.classes.entry("wrapper-done-valid").or_insert(0) += 1;
            } else if (sched == 2 || sched == 3) && matches!(t_ring.verdict, Verdict::Complete) && matches!(t_flat.verdict, Verdict::Complete) {
                return Err((format!("wrapper-rejects-valid/{}", code), format!("inflate() None loop (schedule {}) ends with code {} on a stream the reference accepts", sched, code)));
            }
        }
    }
    Ok(())
}

fn chunkings_for(len: usize, all_cuts: bool) -> Vec<Chunking> {
    let mut v = vec![Chunking::OneCall, Chunking::OneCallMore, Chunking::Bytewise];
    if all_cuts {
        for c in 1..len {
            v.push(Chunking::Cut(c));
        }
    } else {
        for c in [1, 2, len / 2, len.saturating_sub(2), len.saturating_sub(1)] {
            if c >= 1 && c < len && !v.contains(&Chunking::Cut(c)) {
                v.push(Chunking::Cut(c));
            }
        }
    }
    v
}

/// Targeted violations of the rule list, built bit by bit (the generator knows where HLIT,
/// NLEN, a code length, a distance symbol ... live).
pub fn targeted_invalid() -> Vec<(String, Vec<u8>, bool)> {
    targeted_invalid_padded(None)
}

/// `pad`: the bytes that follow the violating element. None = the default garbage; Some(0) = all-zero
/// bits, the most forgiving continuation there is (in a fixed block seven zero bits are the
/// end-of-block code, so a decoder that wrongly carries on past the violation finishes at once).
pub fn targeted_invalid_padded(pad_byte: Option<u8>) -> Vec<(String, Vec<u8>, bool)> {
    let mut v: Vec<(String, Vec<u8>, bool)> = vec![];
    let pad = |w: &mut BitWriter| {
        for _ in 0..24 {
            w.put_byte(pad_byte.unwrap_or(0x5a));
        }
    };
    // reserved block type
    for bfinal in [0, 1] {
        let mut w = BitWriter::new();
        w.put_bits(bfinal, 1);
        w.put_bits(3, 2);
        pad(&mut w);
        v.push((format!("btype3(bfinal={})", bfinal), w.bytes, false));
    }
    // stored LEN != ~NLEN (every single bit of NLEN flipped)
    for bit in 0..16 {
        let mut w = BitWriter::new();
        w.put_bits(1, 1);
        w.put_bits(0, 2);
        w.align();
        w.put_bits(5, 16);
        w.put_bits((!5u32 & 0xffff) ^ (1 << bit), 16);
        for b in b"hello" {
            w.put_byte(*b);
        }
        v.push((format!("stored-nlen-bit{}", bit), w.bytes, false));
    }
    // dynamic headers
    let dyn_head = |hlit: u32, hdist: u32, hclen: u32, cl: &[u32]| {
        let mut w = BitWriter::new();
        w.put_bits(1, 1);
        w.put_bits(2, 2);
        w.put_bits(hlit, 5);
        w.put_bits(hdist, 5);
        w.put_bits(hclen, 4);
        for &c in cl {
            w.put_bits(c, 3);
        }
        w
    };
    // HLIT 30/31 (287/288 symbols) and HDIST 30/31 with an otherwise fine code-length code
    // code-length code: symbols 0 and 8 with length 1 each -> order is 16,17,18,0,8,...: hclen=5 entries (hclen field 1)
    for (hl, hd) in [(30u32, 0u32), (31, 0), (0, 30), (0, 31), (31, 31)] {
        let mut w = dyn_head(hl, hd, 1, &[0, 0, 0, 1, 1]);
        pad(&mut w);
        v.push((format!("hlit-field={},hdist-field={}", hl, hd), w.bytes, false));
    }
    // code-length code over-subscribed (three 1-bit codes) and incomplete (one 1-bit code; one 2-bit code)
    {
        let mut w = dyn_head(0, 0, 1, &[0, 1, 0, 1, 1]);
        pad(&mut w);
        v.push(("clen-oversubscribed".into(), w.bytes, false));
        let mut w = dyn_head(0, 0, 1, &[0, 0, 0, 1, 0]);
        pad(&mut w);
        v.push(("clen-incomplete-single".into(), w.bytes, false));
        let mut w = dyn_head(0, 0, 1, &[0, 0, 0, 2, 2]);
        pad(&mut w);
        v.push(("clen-incomplete-two-2bit".into(), w.bytes, false));
        let mut w = dyn_head(0, 0, 0, &[0, 0, 0, 0]);
        pad(&mut w);
        v.push(("clen-all-zero".into(), w.bytes, false));
    }
    // repeat-previous (16) as the very first code length: cl code {16:1, 0:1}
    {
        let mut w = dyn_head(0, 0, 0, &[1, 0, 0, 1]);
        // canonical: symbol 0 -> code 0, symbol 16 -> code 1
        w.put_bits(1, 1);
        w.put_bits(0, 2);
        pad(&mut w);
        v.push(("repeat-with-no-previous".into(), w.bytes, false));
    }
    // run past HLIT+HDIST: 258 symbols total; cl code {18:1, 1:1}: 18(138) 18(138) overshoots
    {
        let mut w = dyn_head(0, 0, 14, &[0, 0, 1, 0, 0, 0, 0, 0, 0, 0, 0, 0, 0, 0, 0, 0, 0, 1]);
        // lengths: symbol 1 -> code 0, symbol 18 -> code 1
        w.put_bits(1, 1);
        w.put_bits(127, 7);
        w.put_bits(1, 1);
        w.put_bits(127, 7);
        pad(&mut w);
        v.push(("run-past-total".into(), w.bytes, false));
    }
    // litlen / distance code over-subscribed and incomplete, via the generator with raw specs
    {
        use crate::gen::{clops_literal, DynSpec};
        let mk = |ll: Vec<u8>, dl: Vec<u8>, name: &str, v: &mut Vec<(String, Vec<u8>, bool)>| {
            let mut all = ll.clone();
            all.extend_from_slice(&dl);
            let spec = DynSpec::with_ops(ll, dl, clops_literal(&all));
            // write header + lengths only (tokens cannot be encoded with a broken code); then padding
            let mut b = RawDyn::new();
            b.header(&spec);
            for _ in 0..24 {
                b.w.put_byte(pad_byte.unwrap_or(0xa5));
            }
            v.push((name.to_string(), b.w.bytes, false));
        };
        let mut ll = vec![0u8; 257];
        ll[0] = 1;
        ll[1] = 1;
        ll[256] = 1;
        mk(ll.clone(), vec![0], "litlen-oversubscribed-three-1bit", &mut v);
        let mut ll = vec![0u8; 257];
        ll[0] = 2;
        ll[256] = 2;
        mk(ll.clone(), vec![0], "litlen-incomplete-two-2bit", &mut v);
        let mut ll = vec![0u8; 257];
        ll[0] = 1;
        ll[256] = 1;
        mk(ll.clone(), vec![1, 1, 1], "dist-oversubscribed-three-1bit", &mut v);
        mk(ll.clone(), vec![2, 2], "dist-incomplete-two-2bit", &mut v);
        mk(ll.clone(), vec![1, 2], "dist-incomplete-1-2", &mut v);
        let mut ll = vec![0u8; 257];
        ll[5] = 15;
        ll[256] = 1;
        mk(ll, vec![0], "litlen-incomplete-1-15", &mut v);
    }
    // fixed block: litlen symbols 286 / 287, distance symbols 30 / 31
    for sym in [286u16, 287] {
        let mut w = BitWriter::new();
        w.put_bits(1, 1);
        w.put_bits(1, 2);
        w.put_code(0x30 + 0x61, 8);
        w.put_code(0b1100_0000 + (sym - 280), 8);
        pad(&mut w);
        v.push((format!("fixed-litlen-{}", sym), w.bytes, false));
    }
    for ds in [30u16, 31] {
        let mut w = BitWriter::new();
        w.put_bits(1, 1);
        w.put_bits(1, 2);
        w.put_code(0x30 + 0x61, 8);
        w.put_code(0b000_0001, 7);
        w.put_code(ds, 5);
        pad(&mut w);
        v.push((format!("fixed-dist-{}", ds), w.bytes, false));
    }
    // single-code distance table, bit pattern with no code ("1")
    {
        use crate::gen::DynSpec;
        let mut ll = vec![0u8; 258];
        ll[0x61] = 2;
        ll[256] = 2;
        ll[257] = 1;
        let spec = DynSpec::new(ll, vec![1]);
        let mut b = RawDyn::new();
        b.header(&spec);
        // literal 'a' (code 10), length sym 257 (code 0), distance: bit 1 = no code
        b.w.put_code(0b10, 2);
        b.w.put_code(0b0, 1);
        b.w.put_bits(1, 1);
        for _ in 0..24 {
            b.w.put_byte(0);
        }
        v.push(("single-dist-code-undefined-pattern".into(), b.w.bytes, false));
        // single litlen code (EOB only, length 1), pattern "1"
        let mut ll = vec![0u8; 257];
        ll[256] = 1;
        let spec = DynSpec::new(ll, vec![0]);
        let mut b = RawDyn::new();
        b.header(&spec);
        b.w.put_bits(1, 1);
        for _ in 0..24 {
            b.w.put_byte(pad_byte.unwrap_or(0xff));
        }
        v.push(("single-litlen-code-undefined-pattern".into(), b.w.bytes, false));
    }
    // distance before start (flat)
    for (pre, dist) in [(0usize, 1u16), (1, 2), (3, 4), (5, 32768)] {
        let mut b = StreamBuilder::new(None);
        b.pre_window_zero = true;
        let mut t: Vec<Token> = (0..pre).map(|i| Token::Lit(b'a' + i as u8)).collect();
        t.push(Token::Match { len: 3, dist });
        b.fixed(&t, true);
        v.push((format!("dist-before-start(pre={},dist={})", pre, dist), b.finish().bytes, false));
        // the same with a long literal tail, so the violation is met inside the fast decode loop
        let mut b = StreamBuilder::new(None);
        b.pre_window_zero = true;
        t.extend((0..40u8).map(|i| Token::Lit(0x90 + i)));
        b.fixed(&t, true);
        v.push((format!("dist-before-start-long(pre={},dist={})", pre, dist), b.finish().bytes, false));
    }
    // zlib header violations and adler mismatch
    let body = {
        let mut b = StreamBuilder::new(None);
        b.fixed(&[Token::Lit(b'h'), Token::Lit(b'i')], true);
        b.finish()
    };
    let mut hdrs: Vec<(u8, u8, String)> = [(0x79u8, 0x9cu8, "cm=9"), (0x88, 0x1c, "cinfo=8"), (0x78, 0xbb, "fdict"), (0x78, 0x9d, "fcheck"), (0x08, 0x1e, "fcheck-small")].iter().map(|x| (x.0, x.1, x.2.to_string())).collect();
    // every window field above 7 with otherwise flawless header bytes
    for cinfo in 9..=15u8 {
        let cmf = (cinfo << 4) | 8;
        let flg = (31 - (cmf as u32 * 256) % 31) % 31;
        hdrs.push((cmf, flg as u8, format!("cinfo={}", cinfo)));
    }
    for (cmf, flg, name) in hdrs {
        let mut d = vec![cmf, flg];
        d.extend_from_slice(&body.bytes);
        let a = adler32_def(1, &body.plain);
        d.extend_from_slice(&a.to_be_bytes());
        v.push((format!("zlib-header-{}", name), d, true));
    }
    for bit in 0..32 {
        let mut d = vec![0x78, 0x9c];
        d.extend_from_slice(&body.bytes);
        let a = adler32_def(1, &body.plain) ^ (1 << bit);
        d.extend_from_slice(&a.to_be_bytes());
        v.push((format!("zlib-adler-bit{}", bit), d, true));
    }
    v
}


/// Targeted violations placed after 40 000 / 70 000 bytes of valid stored-block output.
pub fn late_violations(th: bool) -> Vec<(String, Vec<u8>, usize)> {
    let hist = |n: usize| -> Vec<u8> {
        let mut l = crate::util::Lcg(0x1234 ^ crate::util::seed());
        let mut v = vec![];
        let mut left = n;
        while left > 0 {
            let k = left.min(65535);
            v.push(0u8);
            v.extend_from_slice(&(k as u16).to_le_bytes());
            v.extend_from_slice(&(!(k as u16)).to_le_bytes());
            v.extend((0..k).map(|_| l.byte()));
            left -= k;
        }
        v
    };
    let mut late: Vec<(String, Vec<u8>, usize)> = vec![];
    for n in [40_000usize, 70_000] {
        let h = hist(n);
        for pb in [None, Some(0u8)] {
            for (name, d, zlib) in targeted_invalid_padded(pb) {
                if zlib || (pb.is_some() && !th && n == 40_000 && !name.starts_with("fixed") && !name.contains("undefined")) {
                    continue;
                }
                let mut c = h.clone();
                c.extend_from_slice(&d);
                late.push((format!("{}+{}{}", n, name, if pb.is_some() { "+zeros" } else { "" }), c, n));
            }
        }
    }
    late
}

/// Writes a dynamic block header + code lengths without any validity assertion.
pub struct RawDyn {
    pub w: BitWriter,
}
impl RawDyn {
    pub fn new() -> Self {
        RawDyn { w: BitWriter::new() }
    }
    pub fn header(&mut self, spec: &crate::gen::DynSpec) {
        use crate::gen::ClOp;
        let w = &mut self.w;
        w.put_bits(1, 1);
        w.put_bits(2, 2);
        w.put_bits((spec.ll.len() - 257) as u32, 5);
        w.put_bits((spec.dl.len() - 1) as u32, 5);
        w.put_bits((spec.hclen - 4) as u32, 4);
        for &idx in CLEN_ORDER.iter().take(spec.hclen) {
            w.put_bits(spec.cl[idx] as u32, 3);
        }
        let clc = canonical_codes(&spec.cl);
        for op in &spec.ops {
            let s = op.sym();
            w.put_code(clc[s], spec.cl[s]);
            match *op {
                ClOp::Len(_) => {}
                ClOp::Rep(c) => w.put_bits(c as u32 - 3, 2),
                ClOp::Z17(c) => w.put_bits(c as u32 - 3, 3),
                ClOp::Z18(c) => w.put_bits(c as u32 - 11, 7),
            }
        }
    }
}

fn mutants_of(s: &GenStream, out: &mut Vec<(Vec<u8>, Known)>, dense: bool) {
    let b = &s.bytes;
    for bit in 0..b.len() * 8 {
        let mut m = b.clone();
        m[bit / 8] ^= 1 << (bit % 8);
        out.push((m, Known::Nothing));
    }
    for cut in 0..b.len() {
        out.push((b[..cut].to_vec(), Known::ProperPrefix));
    }
    let step = if dense { 1 } else { 2 };
    for i in (0..b.len()).step_by(step) {
        let mut m = b.clone();
        m.remove(i);
        out.push((m, Known::Nothing));
    }
    for i in (0..=b.len()).step_by(step) {
        for ins in [0x00u8, 0xff, if i > 0 { b[i - 1] } else { 0x55 }] {
            let mut m = b.clone();
            m.insert(i, ins);
            out.push((m, Known::Nothing));
        }
    }
}

pub fn run(tier: &str) -> i32 {
    let rep = Report::new("C04", tier, "fault_enumeration");
    let th = rep.thorough();
    let mems_small = [MemCfg { mode: Mode::Flat, len: 600 }, MemCfg { mode: Mode::Ring, len: 32768 }, MemCfg { mode: Mode::Ring, len: 8 }];
    // ---- (1) byte trie: all strings up to depth 2 (quick) / 3 (thorough) ----------------------
    let depth = if th { 3 } else { 2 };
    // set of proper prefixes of complete strings inside the explored depth (clause ii)
    let mut complete_raw: HashSet<Vec<u8>> = HashSet::new();
    {
        let found = par_for(256, Vec::new, |a, acc: &mut Vec<Vec<u8>>| {
            let mut s = vec![a as u8];
            let rec = |s: &Vec<u8>, acc: &mut Vec<Vec<u8>>| {
                let t = ref_inflate(s, &Opts::raw());
                if t.is_complete() && t.consumed == s.len() {
                    let z = z_inflate(s, -15, 4096, 1 << 20);
                    if !z.end || z.consumed != s.len() || z.out != t.out {
                        crate::props::selftest::machinery_fail(&format!("zlib and RefInflate disagree on {:02x?}", s));
                    }
                    acc.push(s.clone());
                }
            };
            rec(&s, acc);
            if depth >= 2 {
                for b in 0..=255u8 {
                    s.push(b);
                    rec(&s, acc);
                    if depth >= 3 {
                        for c in 0..=255u8 {
                            s.push(c);
                            rec(&s, acc);
                            s.pop();
                        }
                    }
                    s.pop();
                }
            }
        });
        for f in found.into_iter().flatten() {
            complete_raw.insert(f);
        }
    }
    let mut prefixes: HashSet<Vec<u8>> = HashSet::new();
    for c in &complete_raw {
        for k in 0..c.len() {
            prefixes.insert(c[..k].to_vec());
        }
    }
    let accs1 = par_for(256, Acc::default, |a, acc| {
        watchdog::tick(a as u64, 1);
        let mut todo: Vec<Vec<u8>> = vec![vec![a as u8]];
        if a == 0 {
            todo.push(vec![]);
        }
        if depth >= 2 {
            for b in 0..=255u8 {
                todo.push(vec![a as u8, b]);
            }
        }
        let mut run_set = |s: &Vec<u8>, acc: &mut Acc| {
            watchdog::pulse();
            let known = if prefixes.contains(s) { Known::ProperPrefix } else { Known::Nothing };
            for zlib in [false, true] {
                for mem in mems_small {
                    for ch in chunkings_for(s.len(), true) {
                        let kn = if zlib { Known::Nothing } else { known };
                        if let Err((site, what)) = check_one(s, zlib, mem, ch, kn, acc) {
                            rep.violation(
                                &format!("C04/{}", site),
                                format!("{} :: input {} zlib={} {:?} {:?}", what, hex(s), zlib, mem, ch),
                                json!({"input_hex": hex(s), "zlib": zlib, "mode": format!("{:?}", mem.mode), "buflen": mem.len, "chunking": format!("{:?}", ch), "proper_prefix": kn == Known::ProperPrefix}),
                            );
                        }
                    }
                }
            }
        };
        for s in &todo {
            run_set(s, acc);
        }
        if depth >= 3 {
            let mut s = vec![a as u8, 0, 0];
            for b in 0..=255u8 {
                for c in 0..=255u8 {
                    s[1] = b;
                    s[2] = c;
                    // depth 3: raw + flat + ring32k, one call with/without more input and bytewise
                    let known = if prefixes.contains(&s) { Known::ProperPrefix } else { Known::Nothing };
                    for mem in [mems_small[0], mems_small[1]] {
                        for ch in [Chunking::OneCall, Chunking::OneCallMore, Chunking::Bytewise] {
                            if let Err((site, what)) = check_one(&s, false, mem, ch, known, acc) {
                                rep.violation(
                                    &format!("C04/{}", site),
                                    format!("{} :: input {} {:?} {:?}", what, hex(&s), mem, ch),
                                    json!({"input_hex": hex(&s), "zlib": false, "mode": format!("{:?}", mem.mode), "buflen": mem.len, "chunking": format!("{:?}", ch), "proper_prefix": known == Known::ProperPrefix}),
                                );
                            }
                        }
                    }
                }
                watchdog::pulse();
            }
        }
    });
    // ---- (2) single-fault mutants of the compact corpus ----------------------------------------
    let cc: Vec<GenStream> = {
        let all = corpus::compact_corpus(true);
        let mut v: Vec<GenStream> = all.into_iter().filter(|s| s.bytes.len() <= 120).collect();
        v.extend(corpus::produced_corpus().into_iter().filter(|s| s.bytes.len() <= 120));
        let keep = if th { 300 } else { 120 };
        let step = (v.len() / keep).max(1);
        v.into_iter().step_by(step).collect()
    };
    for s in &cc {
        if let Err(e) = crate::props::selftest::triangulate(s) {
            crate::props::selftest::machinery_fail(&e);
        }
    }
    let accs2 = par_for(cc.len(), Acc::default, |i, acc| {
        watchdog::tick(i as u64, 2);
        let s = &cc[i];
        let mut ms = vec![];
        mutants_of(s, &mut ms, th);
        let n_out = s.plain.len();
        let mems = [MemCfg { mode: Mode::Flat, len: n_out + 600 }, MemCfg { mode: Mode::Ring, len: 32768 }, MemCfg { mode: Mode::Ring, len: 16 }];
        for m in std::iter::once(&s.bytes).chain(ms.iter().map(|x| &x.0).step_by(if th { 1 } else { 3 })) {
            if let Err((site, what)) = check_wrapper(m, s.zlib, acc) {
                rep.violation(&format!("C04/{}", site), format!("{} :: mutant of [{}]", what, s.desc), json!({"wrapper": true, "input_hex": hex(m), "zlib": s.zlib, "base": s.desc}));
            }
        }
        for (m, known) in ms.iter() {
            watchdog::pulse();
            acc.distinct.insert(crate::util::fp128(m));
            for (mi, mem) in mems.iter().enumerate() {
                let chs = chunkings_for(m.len(), th && mi == 0);
                for ch in chs {
                    // a truncation of a zlib stream inside the ring-16 model may legitimately be
                    // rejected by the window-size rule: prefix knowledge is asserted for flat and 32 KiB
                    let kn = if mi == 2 { Known::Nothing } else { *known };
                    if let Err((site, what)) = check_one(m, s.zlib, *mem, ch, kn, acc) {
                        rep.violation(
                            &format!("C04/{}", site),
                            format!("{} :: mutant of [{}] {:?} {:?}", what, s.desc, mem, ch),
                            json!({"input_hex": hex(m), "zlib": s.zlib, "mode": format!("{:?}", mem.mode), "buflen": mem.len, "chunking": format!("{:?}", ch), "proper_prefix": kn == Known::ProperPrefix, "base": s.desc}),
                        );
                    }
                }
            }
        }
    });
    // ---- (3) targeted violations ---------------------------------------------------------------
    let targeted = targeted_invalid();
    let mut acc3 = Acc::default();
    for (name, d, zlib) in &targeted {
        let t = ref_inflate(d, &Opts::fmt(*zlib));
        if !matches!(t.verdict, Verdict::Invalid(_)) {
            crate::props::selftest::machinery_fail(&format!("targeted violation [{}] is not classed Invalid by the reference: {:?}", name, t.verdict));
        }
        let z = z_inflate(d, if *zlib { 15 } else { -15 }, 4096, 1 << 20);
        if z.end {
            crate::props::selftest::machinery_fail(&format!("system zlib accepts targeted violation [{}]", name));
        }
        // header and checksum rules do not depend on the output geometry: the zlib cases also run
        // with rings from 32 KiB to 1 MiB (a ring larger than any legal window included)
        let mut mems = vec![MemCfg { mode: Mode::Flat, len: 600 }];
        if *zlib {
            mems.extend([MemCfg { mode: Mode::Ring, len: 32768 }, MemCfg { mode: Mode::Ring, len: 65536 }, MemCfg { mode: Mode::Ring, len: 1 << 17 }, MemCfg { mode: Mode::Ring, len: 1 << 20 }]);
        }
        for mem in mems {
            for ch in chunkings_for(d.len(), true) {
                if let Err((site, what)) = check_one(d, *zlib, mem, ch, Known::Nothing, &mut acc3) {
                    rep.violation(
                        &format!("C04/{}/{}", site, name),
                        format!("{} :: targeted violation [{}] {:?} {:?}", what, name, mem, ch),
                        json!({"input_hex": hex(d), "zlib": zlib, "mode": format!("{:?}", mem.mode), "buflen": mem.len, "chunking": format!("{:?}", ch), "proper_prefix": false, "base": name}),
                    );
                }
                // record which failure state the crate ended in
                if HOOKS && ch == Chunking::OneCall {
                    let mut dd = DecDrv::new(Mode::Flat, 600, if *zlib { F_ZLIB } else { 0 }, 0);
                    dd.step(d, usize::MAX, usize::MAX);
                    if dd.last == Some(TINFLStatus::Failed) {
                        acc3.fail_states.insert(dec_state_name(&dd.r));
                    }
                }
            }
        }
    }
    // ---- (3c) every violation on a decoder object that was used before ------------------------
    // histories: each raw targeted violation, alone and after a valid dynamic block (so that tables
    // of a successfully decoded block *and* whatever the rejected header left behind are in the
    // object); then init(); probes: each raw targeted violation and three valid streams (fixed,
    // dynamic, stored first). The verdict must be the one for a new decoder.
    let mut acc3c = Acc::default();
    {
        use crate::gen::{dyn_spec_for, CodeShape};
        let raw_viol: Vec<(String, Vec<u8>)> = targeted.iter().filter(|t| !t.2).map(|t| (t.0.clone(), t.1.clone())).collect();
        let toks = [Token::Lit(b'q'), Token::Lit(b'r'), Token::Match { len: 4, dist: 2 }, Token::Match { len: 3, dist: 1 }];
        let dynpre = {
            let spec = dyn_spec_for(&toks, CodeShape::Flat, CodeShape::Flat).unwrap();
            let mut b = StreamBuilder::new(None);
            b.dynamic(&spec, &toks, false);
            b.finish_with_raw_tail(&[]).0
        };
        let mut hists: Vec<(String, Vec<u8>)> = vec![];
        for (name, bytes) in raw_viol.iter() {
            hists.push((format!("history:{}", name), bytes.clone()));
            let mut both = dynpre.clone();
            both.extend_from_slice(bytes);
            hists.push((format!("history:dyn-then-{}", name), both));
        }
        let mut probes: Vec<(String, Vec<u8>, bool)> = raw_viol.iter().map(|(n, b)| (n.clone(), b.clone(), false)).collect();
        for (i, name) in ["valid-fixed-first", "valid-dynamic-first", "valid-stored-first"].iter().enumerate() {
            let mut b = StreamBuilder::new(None);
            match i {
                0 => {
                    b.fixed(&toks, true);
                }
                1 => {
                    let spec = dyn_spec_for(&toks, CodeShape::ChainDeep(9), CodeShape::Flat).unwrap();
                    b.dynamic(&spec, &toks, true);
                }
                _ => {
                    b.stored(b"stored", false).fixed(&toks, true);
                }
            }
            probes.push((name.to_string(), b.finish().bytes, true));
        }
        let items: Vec<(usize, usize)> = (0..hists.len()).flat_map(|h| (0..probes.len()).map(move |p| (h, p))).collect();
        let accs = par_for(items.len(), Acc::default, |ix, acc| {
            watchdog::tick(ix as u64, 4);
            let (hi, pi) = items[ix];
            let (hname, h) = &hists[hi];
            let (pname, p, valid) = &probes[pi];
            for cuts in [vec![], (1..p.len()).collect::<Vec<usize>>()] {
                acc.evals += 1;
                let r = guarded(|| {
                    run_cuts_with(p, Mode::Flat, 600, 0, &cuts, false, 0xC3, |d| {
                        let mut scratch = vec![0u8; 600];
                        let _ = miniz_oxide::inflate::core::decompress(d, h, &mut scratch, 0, F_FLAT);
                        d.init();
                    })
                });
                let rp = json!({"reuse": true, "history_hex": hex(h), "input_hex": hex(p), "bytewise": !cuts.is_empty(), "history": hname, "probe": pname});
                match r {
                    Err(pn) => rep.violation("C04/panic/reused-decoder", format!("panic {} :: [{}] then [{}]", pn, hname, pname), rp),
                    Ok(r) => {
                        let done = r.status == TINFLStatus::Done;
                        if done && !*valid {
                            rep.violation(&format!("C04/accepts-invalid/reused-decoder/{}", pname), format!("Done on an invalid stream [{}] decoded by an object that had decoded [{}] and was re-initialised", pname, hname), rp);
                        } else if !done && *valid {
                            rep.violation(&format!("C04/rejects-valid/reused-decoder/{}", pname), format!("{} on a valid stream [{}] decoded by an object that had decoded [{}] and was re-initialised", status_name(r.status), pname, hname), rp);
                        } else {
                            *acc.classes.entry(if done { "reused-done-valid" } else { "reused-invalid-rejected" }).or_insert(0) += 1;
                        }
                    }
                }
            }
        });
        for a in accs {
            acc3c.evals += a.evals;
            for (k, v) in a.classes {
                *acc3c.classes.entry(k).or_insert(0) += v;
            }
        }
        rep.set("reused_decoder_history_probe_pairs", json!(items.len()));
    }
    // ---- (3b) the same violations late in a stream -----------------------------------------------
    // after 40 000 / 70 000 bytes of valid stored-block output (beyond the 32 KiB window and beyond
    // the largest encodable distance), with garbage and with all-zero continuations, in flat
    // buffers and rings of 32 KiB and 64 KiB: checks that compare a position with a distance, and
    // the fast decode loop (plenty of input and room), see different numbers there. The oracle is
    // the reference verdict on the composite stream in the same memory model (a distance that
    // reached before the start of a short stream is valid once there is history in front of it).
    let late = late_violations(th);
    let accs3b = par_for(late.len(), Acc::default, |i, acc| {
        watchdog::tick(i as u64, 3);
        let (name, d, n) = &late[i];
        let hl = d.len() - 24;
        for mem in [MemCfg { mode: Mode::Flat, len: n + 70_000 }, MemCfg { mode: Mode::Ring, len: 65536 }, MemCfg { mode: Mode::Ring, len: 32768 }] {
            for ch in [Chunking::OneCall, Chunking::OneCallMore, Chunking::Cut(n / 2), Chunking::Cut(hl.min(d.len() - 1)), Chunking::Cut(d.len() - 3)] {
                if let Err((site, what)) = check_one(d, false, mem, ch, Known::Nothing, acc) {
                    rep.violation(
                        &format!("C04/{}/late/{}", site, name.split('+').nth(1).unwrap_or("")),
                        format!("{} :: late violation [{}] {:?} {:?}", what, name, mem, ch),
                        json!({"input_hex": if d.len() < 3000 { json!(hex(d)) } else { Value::Null }, "late": name, "zlib": false, "mode": format!("{:?}", mem.mode), "buflen": mem.len, "chunking": format!("{:?}", ch), "proper_prefix": false, "base": name}),
                    );
                }
            }
        }
    });
    // ---- (3d) completion implies the right bytes also *behind* a full window: the valid
    // length x distance sweeps (every distance class boundary, every power of two -2..+1, after
    // 32 KiB of incompressible history) in a flat buffer and in rings of exactly one and two windows
    let deep = deep_valid_streams();
    let accs3d = par_for(deep.len(), Acc::default, |i, acc| {
        watchdog::tick(i as u64, 5);
        let s = &deep[i];
        for mem in [MemCfg { mode: Mode::Flat, len: s.plain.len() + 600 }, MemCfg { mode: Mode::Ring, len: 32768 }, MemCfg { mode: Mode::Ring, len: 65536 }] {
            for ch in [Chunking::OneCall, Chunking::OneCallMore, Chunking::Cut(s.bytes.len() - 40)] {
                if let Err((site, what)) = check_one(&s.bytes, s.zlib, mem, ch, Known::Nothing, acc) {
                    rep.violation(
                        &format!("C04/{}/deep-valid", site),
                        format!("{} :: [{}] {:?} {:?}", what, s.desc, mem, ch),
                        json!({"input_hex": Value::Null, "deep_valid": i, "zlib": s.zlib, "mode": format!("{:?}", mem.mode), "buflen": mem.len, "chunking": format!("{:?}", ch), "proper_prefix": false, "base": s.desc}),
                    );
                }
            }
        }
    });
    rep.set("deep_valid_streams", json!(deep.len()));
    let late_invalid: u64 = accs3b.iter().map(|a| a.classes.get("invalid-rejected").copied().unwrap_or(0)).sum();
    rep.set("late_violation_streams", json!(late.len()));
    rep.set("late_violation_runs_reference_invalid", json!(late_invalid));
    // ---- merge ---------------------------------------------------------------------------------
    let mut evals = acc3.evals;
    let mut classes: BTreeMap<&'static str, u64> = acc3.classes.clone();
    let mut distinct = 0usize;
    let mut prefix_checks = acc3.prefix_checks;
    let mut reasons: BTreeSet<&'static str> = acc3.invalid_reasons.clone();
    for a in accs1.iter().chain(accs2.iter()).chain(accs3b.iter()).chain(accs3d.iter()).chain(std::iter::once(&acc3c)) {
        evals += a.evals;
        for (k, v) in &a.classes {
            *classes.entry(k).or_insert(0) += v;
        }
        distinct += a.distinct.len();
        prefix_checks += a.prefix_checks;
        reasons.extend(a.invalid_reasons.iter());
    }
    let trie_strings: u64 = (1..=depth).map(|d| 256u64.pow(d as u32)).sum::<u64>() + 1;
    rep.set("evaluations", json!(evals));
    rep.set("distinct_nontrivial", json!(distinct as u64 + trie_strings));
    rep.set("byte_trie_depth", json!(depth));
    rep.set("byte_trie_strings", json!(trie_strings));
    rep.set("complete_short_streams_found", json!(complete_raw.len()));
    rep.set("proper_prefix_checks", json!(prefix_checks));
    rep.set("mutated_base_streams", json!(cc.len()));
    rep.set("single_fault_mutants", json!(distinct));
    rep.set("targeted_violations", json!(targeted.len()));
    rep.set("classes", json!(classes));
    rep.set("reference_invalid_reasons_seen", json!(reasons));
    rep.set("failure_states_hit_by_targeted", json!(acc3.fail_states));
    rep.set("exhaustive", json!(true));
    rep.set("rule", json!(format!("all byte strings of length <= {} (raw and zlib; flat, ring 32768, ring 8; one call with and without more-input, every cut, bytewise); every single bit flip, truncation, byte deletion and insertion of {{00, ff, neighbour}} of {} valid corpus streams (flat, ring 32768, ring 16); {} targeted rule violations; oracle: Done => the consumed bytes are Complete for the reference decoder in the same memory model with the same output; reference Complete => not rejected; proper prefix of a triangulated valid stream => never Failed/Adler32Mismatch. distinct = distinct mutant byte strings + trie strings", depth, cc.len(), targeted.len())));
    rep.sample(json!({"input_hex": "0300", "zlib": false, "chunking": "OneCallMore", "expect": "complete 2-byte stream"}));
    rep.sample(json!({"targeted": targeted.iter().map(|t| t.0.clone()).take(12).collect::<Vec<_>>()}));
    rep.assume("'proper prefix of a valid stream' is asserted only for truncations of streams accepted by the generator, the reference decoder and system zlib, and for byte-trie nodes with a Complete descendant inside the explored depth");
    if HOOKS && acc3.fail_states.len() < 8 {
        rep.warn(format!("targeted violations reached only {} distinct failure states", acc3.fail_states.len()));
    }
    if evals < 100_000 || complete_raw.is_empty() || prefix_checks == 0 {
        println!("MACHINERY vacuous: evals={} complete={} prefix_checks={}", evals, complete_raw.len(), prefix_checks);
        rep.finish();
        return 2;
    }
    rep.finish()
}

/// Valid streams with matches behind 32 KiB of history (fixed seed: replay files index this list).
fn deep_valid_streams() -> Vec<crate::gen::GenStream> {
    use crate::gen::CodeShape;
    use crate::streams::Coding;
    crate::streams::length_distance_sweeps(None, false, &[Coding::Fixed, Coding::Dyn(CodeShape::Flat, CodeShape::ChainDeep(15))], 0x04)
}

pub fn replay(v: &Value) -> Option<String> {
    if v.get("reuse").is_some() {
        let h = unhex(v["history_hex"].as_str()?);
        let p = unhex(v["input_hex"].as_str()?);
        let cuts: Vec<usize> = if v["bytewise"].as_bool()? { (1..p.len()).collect() } else { vec![] };
        let r = run_cuts_with(&p, Mode::Flat, 600, 0, &cuts, false, 0xC3, |d| {
            let mut scratch = vec![0u8; 600];
            let _ = miniz_oxide::inflate::core::decompress(d, &h, &mut scratch, 0, F_FLAT);
            d.init();
        });
        let valid = matches!(ref_inflate(&p, &Opts::raw()).verdict, Verdict::Complete);
        return if (r.status == TINFLStatus::Done) != valid { Some(format!("reused decoder: {} on a stream the reference calls {}", status_name(r.status), if valid { "valid" } else { "invalid" })) } else { None };
    }
    if v.get("wrapper").is_some() {
        let d = unhex(v["input_hex"].as_str()?);
        let mut acc = Acc::default();
        return check_wrapper(&d, v["zlib"].as_bool()?, &mut acc).err().map(|e| e.1);
    }
    let d = match v["input_hex"].as_str() {
        Some(h) => unhex(h),
        None => {
            if let Some(i) = v["deep_valid"].as_u64() {
                deep_valid_streams().into_iter().nth(i as usize)?.bytes
            } else {
                let name = v["late"].as_str()?;
                late_violations(true).into_iter().find(|l| l.0 == name)?.1
            }
        }
    };
    let zlib = v["zlib"].as_bool()?;
    let mode = if v["mode"].as_str()? == "Flat" { Mode::Flat } else { Mode::Ring };
    let mem = MemCfg { mode, len: v["buflen"].as_u64()? as usize };
    let chs = v["chunking"].as_str()?;
    let ch = if chs == "OneCall" {
        Chunking::OneCall
    } else if chs == "OneCallMore" {
        Chunking::OneCallMore
    } else if chs == "Bytewise" {
        Chunking::Bytewise
    } else {
        Chunking::Cut(chs.trim_start_matches("Cut(").trim_end_matches(')').parse().ok()?)
    };
    let known = if v["proper_prefix"].as_bool().unwrap_or(false) { Known::ProperPrefix } else { Known::Nothing };
    let mut acc = Acc::default();
    check_one(&d, zlib, mem, ch, known, &mut acc).err().map(|e| e.1)
}
