//! Small shared utilities: 128-bit fingerprint hasher, parallel work queue, hex, LCG.
use std::hash::Hasher;
use std::sync::atomic::{AtomicUsize, Ordering};

/// Two independent 64-bit multiply/rotate lanes. Not cryptographic; collision probability at
/// 10^9 states is ~10^-20 (stated as an assumption in the evidence files).
#[derive(Clone)]
pub struct H128 {
    a: u64,
    b: u64,
}

impl H128 {
    pub fn new() -> Self {
        H128 { a: 0x243F_6A88_85A3_08D3, b: 0x1319_8A2E_0370_7344 }
    }
    #[inline(always)]
    fn mix(&mut self, x: u64) {
        self.a = (self.a ^ x).wrapping_mul(0x9E37_79B9_7F4A_7C15).rotate_left(29);
        self.b = (self.b.rotate_left(31) ^ x.wrapping_mul(0xC2B2_AE3D_27D4_EB4F))
            .wrapping_mul(0x1656_67B1_9E37_79F9);
    }
    pub fn finish128(&self) -> u128 {
        let mut a = self.a;
        let mut b = self.b;
        a ^= a >> 32;
        a = a.wrapping_mul(0xD6E8_FEB8_6659_FD93);
        a ^= a >> 29;
        b ^= b >> 31;
        b = b.wrapping_mul(0xFF51_AFD7_ED55_8CCD);
        b ^= b >> 33;
        ((a as u128) << 64) | (b as u128)
    }
}

impl Hasher for H128 {
    fn finish(&self) -> u64 {
        self.finish128() as u64
    }
    #[inline]
    fn write(&mut self, bytes: &[u8]) {
        self.mix(bytes.len() as u64 ^ 0xA5A5_0000_0000_0000);
        let mut chunks = bytes.chunks_exact(8);
        for c in &mut chunks {
            self.mix(u64::from_le_bytes(c.try_into().unwrap()));
        }
        let r = chunks.remainder();
        if !r.is_empty() {
            let mut t = [0u8; 8];
            t[..r.len()].copy_from_slice(r);
            self.mix(u64::from_le_bytes(t));
        }
    }
    #[inline]
    fn write_u8(&mut self, i: u8) {
        self.mix(i as u64 | 0x0100)
    }
    #[inline]
    fn write_u16(&mut self, i: u16) {
        self.mix(i as u64 | 0x0002_0000)
    }
    #[inline]
    fn write_i16(&mut self, i: i16) {
        self.mix(i as u16 as u64 | 0x0002_0000)
    }
    #[inline]
    fn write_u32(&mut self, i: u32) {
        self.mix(i as u64 | 0x0004_0000_0000)
    }
    #[inline]
    fn write_i32(&mut self, i: i32) {
        self.mix(i as u32 as u64 | 0x0004_0000_0000)
    }
    #[inline]
    fn write_u64(&mut self, i: u64) {
        self.mix(i)
    }
    #[inline]
    fn write_usize(&mut self, i: usize) {
        self.mix(i as u64)
    }
    #[inline]
    fn write_i8(&mut self, i: i8) {
        self.mix(i as u8 as u64 | 0x0100)
    }
}

pub fn nthreads() -> usize {
    std::env::var("VERIF_THREADS")
        .ok()
        .and_then(|s| s.parse().ok())
        .unwrap_or_else(|| std::thread::available_parallelism().map(|n| n.get()).unwrap_or(8))
        .max(1)
}

/// Run `f(i, &mut acc)` for every i in 0..n on a pool of threads; each thread owns one
/// accumulator created by `mk`; the accumulators are returned for merging. Work distribution is
/// dynamic but every index is visited exactly once, so results do not depend on timing as long
/// as the merge is commutative.
pub fn par_for<A: Send, F: Fn(usize, &mut A) + Sync, M: Fn() -> A + Sync>(
    n: usize,
    mk: M,
    f: F,
) -> Vec<A> {
    let next = AtomicUsize::new(0);
    let nt = nthreads().min(n.max(1));
    let mut out = Vec::new();
    std::thread::scope(|s| {
        let mut hs = Vec::new();
        for t in 0..nt {
            let next = &next;
            let f = &f;
            let mk = &mk;
            hs.push(
                std::thread::Builder::new()
                    .name(format!("w{}", t))
                    .stack_size(64 << 20)
                    .spawn_scoped(s, move || {
                        crate::watchdog::register_worker(t);
                        let mut acc = mk();
                        loop {
                            let i = next.fetch_add(1, Ordering::Relaxed);
                            if i >= n {
                                break;
                            }
                            f(i, &mut acc);
                        }
                        crate::watchdog::clear(t);
                        acc
                    })
                    .unwrap(),
            );
        }
        for h in hs {
            match h.join() {
                Ok(a) => out.push(a),
                Err(e) => std::panic::resume_unwind(e),
            }
        }
    });
    out
}

pub fn hex(b: &[u8]) -> String {
    let mut s = String::with_capacity(b.len() * 2);
    for x in b {
        s.push_str(&format!("{:02x}", x));
    }
    s
}

pub fn unhex(s: &str) -> Vec<u8> {
    let s = s.as_bytes();
    (0..s.len() / 2)
        .map(|i| u8::from_str_radix(std::str::from_utf8(&s[2 * i..2 * i + 2]).unwrap(), 16).unwrap())
        .collect()
}

/// Short description of a byte string for samples: hex if short, else length + head + hash.
pub fn brief(b: &[u8]) -> String {
    if b.len() <= 48 {
        format!("hex:{}", hex(b))
    } else {
        let mut h = H128::new();
        h.write(b);
        format!("len={} head={} fp={:016x}", b.len(), hex(&b[..16]), h.finish128() as u64)
    }
}

/// Deterministic LCG used for "incompressible" content. Seeded by VERIF_SEED-perturbed constants.
#[derive(Clone)]
pub struct Lcg(pub u64);
impl Lcg {
    pub fn next_u32(&mut self) -> u32 {
        self.0 = self.0.wrapping_mul(6364136223846793005).wrapping_add(1442695040888963407);
        (self.0 >> 33) as u32
    }
    pub fn byte(&mut self) -> u8 {
        (self.next_u32() >> 11) as u8
    }
}

pub fn seed() -> u64 {
    std::env::var("VERIF_SEED").ok().and_then(|s| s.parse::<i64>().ok()).unwrap_or(0) as u64
}

pub fn fp128(b: &[u8]) -> u128 {
    let mut h = H128::new();
    h.write(b);
    h.finish128()
}
