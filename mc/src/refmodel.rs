//! Independent reference model, written from RFC 1950 / RFC 1951 / ISO 3309.
//! Nothing here is imported from the crate under test: no table, constant or function.
//! Boring on purpose: bit-at-a-time reader, explicit binary trie, byte-at-a-time copies.

// ---------------------------------------------------------------------------------------
// Checksums by definition
// ---------------------------------------------------------------------------------------

/// RFC 1950 Adler-32, one byte at a time, starting from `start` (1 for a fresh checksum).
pub fn adler32_def(start: u32, data: &[u8]) -> u32 {
    let mut a = start & 0xffff;
    let mut s = (start >> 16) & 0xffff;
    for &b in data {
        a = (a + b as u32) % 65521;
        s = (s + a) % 65521;
    }
    (s << 16) | a
}

/// ISO 3309 / ITU-T V.42 CRC-32 (reflected, polynomial 0xEDB88320), bit at a time.
pub fn crc32_def(start: u32, data: &[u8]) -> u32 {
    let mut c = !start;
    for &b in data {
        c ^= b as u32;
        for _ in 0..8 {
            c = if c & 1 != 0 { (c >> 1) ^ 0xEDB8_8320 } else { c >> 1 };
        }
    }
    !c
}

// ---------------------------------------------------------------------------------------
// RFC 1951 tables (typed in from section 3.2.5)
// ---------------------------------------------------------------------------------------

pub const LEN_BASE: [u16; 29] = [
    3, 4, 5, 6, 7, 8, 9, 10, 11, 13, 15, 17, 19, 23, 27, 31, 35, 43, 51, 59, 67, 83, 99, 115, 131, 163, 195, 227, 258,
];
pub const LEN_XBITS: [u8; 29] = [0, 0, 0, 0, 0, 0, 0, 0, 1, 1, 1, 1, 2, 2, 2, 2, 3, 3, 3, 3, 4, 4, 4, 4, 5, 5, 5, 5, 0];
pub const DIST_BASE_T: [u16; 30] = [
    1, 2, 3, 4, 5, 7, 9, 13, 17, 25, 33, 49, 65, 97, 129, 193, 257, 385, 513, 769, 1025, 1537, 2049, 3073, 4097, 6145,
    8193, 12289, 16385, 24577,
];
pub const DIST_XBITS: [u8; 30] =
    [0, 0, 0, 0, 1, 1, 2, 2, 3, 3, 4, 4, 5, 5, 6, 6, 7, 7, 8, 8, 9, 9, 10, 10, 11, 11, 12, 12, 13, 13];
pub const CLEN_ORDER: [usize; 19] = [16, 17, 18, 0, 8, 7, 9, 6, 10, 5, 11, 4, 12, 3, 13, 2, 14, 1, 15];

/// Fixed litlen code lengths (RFC 1951 3.2.6).
pub fn fixed_litlen_lengths() -> Vec<u8> {
    let mut v = vec![0u8; 288];
    for (i, x) in v.iter_mut().enumerate() {
        *x = if i < 144 {
            8
        } else if i < 256 {
            9
        } else if i < 280 {
            7
        } else {
            8
        };
    }
    v
}

/// Canonical code assignment, RFC 1951 3.2.2. Returns code value per symbol (0 for unused).
pub fn canonical_codes(lengths: &[u8]) -> Vec<u16> {
    let mut bl_count = [0u32; 17];
    for &l in lengths {
        bl_count[l as usize] += 1;
    }
    bl_count[0] = 0;
    let mut next_code = [0u32; 17];
    let mut code = 0u32;
    for bits in 1..=16 {
        code = (code + bl_count[bits - 1]) << 1;
        next_code[bits] = code;
    }
    let mut out = vec![0u16; lengths.len()];
    for (n, &l) in lengths.iter().enumerate() {
        if l != 0 {
            out[n] = next_code[l as usize] as u16;
            next_code[l as usize] += 1;
        }
    }
    out
}

/// Kraft sum in units of 2^-15.
pub fn kraft(lengths: &[u8]) -> u64 {
    lengths.iter().filter(|&&l| l != 0).map(|&l| 1u64 << (15 - l as u32)).sum()
}

#[derive(Debug, Clone, Copy, PartialEq, Eq)]
pub enum CodeClass {
    Complete,
    /// No symbol at all.
    Empty,
    /// Exactly one symbol, of length 1.
    Single,
    Incomplete,
    Oversubscribed,
}

pub fn classify(lengths: &[u8]) -> CodeClass {
    let k = kraft(lengths);
    let n = lengths.iter().filter(|&&l| l != 0).count();
    if k > 1 << 15 {
        CodeClass::Oversubscribed
    } else if k == 1 << 15 {
        CodeClass::Complete
    } else if n == 0 {
        CodeClass::Empty
    } else if n == 1 && lengths.iter().any(|&l| l == 1) {
        CodeClass::Single
    } else {
        CodeClass::Incomplete
    }
}

const NONE: u32 = u32::MAX;
const LEAF: u32 = 1 << 31;

/// Explicit binary trie: node = [child on bit 0, child on bit 1]; a child is NONE, a node
/// index, or LEAF | symbol.
pub struct Trie {
    nodes: Vec<[u32; 2]>,
}

impl Trie {
    /// Build from code lengths; the caller has already rejected over-subscribed sets.
    pub fn new(lengths: &[u8]) -> Trie {
        let codes = canonical_codes(lengths);
        let mut nodes = vec![[NONE, NONE]];
        for (sym, &l) in lengths.iter().enumerate() {
            if l == 0 {
                continue;
            }
            let mut cur = 0usize;
            for i in (0..l).rev() {
                let bit = ((codes[sym] >> i) & 1) as usize;
                if i == 0 {
                    assert!(nodes[cur][bit] == NONE, "prefix conflict in reference trie");
                    nodes[cur][bit] = LEAF | sym as u32;
                } else {
                    let nx = nodes[cur][bit];
                    if nx == NONE {
                        nodes.push([NONE, NONE]);
                        let id = (nodes.len() - 1) as u32;
                        nodes[cur][bit] = id;
                        cur = id as usize;
                    } else {
                        assert!(nx & LEAF == 0, "prefix conflict in reference trie");
                        cur = nx as usize;
                    }
                }
            }
        }
        Trie { nodes }
    }
}

pub struct BitReader<'a> {
    pub data: &'a [u8],
    pub pos: usize,
}

impl<'a> BitReader<'a> {
    pub fn new(data: &'a [u8]) -> Self {
        BitReader { data, pos: 0 }
    }
    #[inline]
    pub fn bit(&mut self) -> Option<u32> {
        let byte = *self.data.get(self.pos >> 3)?;
        let b = (byte >> (self.pos & 7)) & 1;
        self.pos += 1;
        Some(b as u32)
    }
    /// n bits, least significant first (RFC 1951 3.1.1).
    pub fn bits(&mut self, n: u32) -> Option<u32> {
        let mut v = 0u32;
        for i in 0..n {
            v |= self.bit()? << i;
        }
        Some(v)
    }
    pub fn align(&mut self) {
        self.pos = (self.pos + 7) & !7;
    }
}

enum Sym {
    Ok(u32, u8),
    Starved,
    NoCode,
}

fn decode_sym(t: &Trie, r: &mut BitReader) -> Sym {
    let mut cur = 0usize;
    let mut n = 0u8;
    loop {
        let Some(b) = r.bit() else { return Sym::Starved };
        n += 1;
        let nx = t.nodes[cur][b as usize];
        if nx == NONE {
            return Sym::NoCode;
        }
        if nx & LEAF != 0 {
            return Sym::Ok(nx & !LEAF, n);
        }
        cur = nx as usize;
    }
}

#[derive(Debug, Clone, Copy, PartialEq, Eq)]
pub enum Token {
    Lit(u8),
    Match { len: u16, dist: u16 },
}

#[derive(Debug, Clone, Default)]
pub struct Block {
    pub btype: u8,
    pub bfinal: bool,
    pub start_bit: usize,
    pub end_bit: usize,
    pub hlit: usize,
    pub hdist: usize,
    pub hclen: usize,
    pub litlen_lengths: Vec<u8>,
    pub dist_lengths: Vec<u8>,
    pub clen_lengths: Vec<u8>,
    pub n_clen_syms: usize,
    pub tokens: Vec<Token>,
    pub stored_len: usize,
    /// bit i set = a litlen code of length i was decoded; same for distance codes.
    pub litlen_lens_used: u16,
    pub dist_lens_used: u16,
    pub out_start: usize,
}

#[derive(Debug, Clone, PartialEq, Eq)]
pub enum Verdict {
    /// The first `consumed` bytes are exactly one valid stream.
    Complete,
    /// No rule violated so far, input ran out (inside element `0`).
    Starved(&'static str),
    Invalid(&'static str),
    /// Output exceeded the cap given in the options (machinery limit, not a format verdict).
    TooBig,
}

#[derive(Debug, Clone)]
pub struct Trace {
    pub verdict: Verdict,
    pub blocks: Vec<Block>,
    pub out: Vec<u8>,
    /// Bit position (in the whole input, header included) just after the final block.
    pub end_bit: usize,
    /// Bytes of the stream: header + ceil(deflate bits / 8) + trailer. Valid when Complete.
    pub consumed: usize,
    pub bit_at_verdict: usize,
    pub zlib_header: Option<(u8, u8)>,
    pub adler_stored: Option<u32>,
    pub max_dist: usize,
    pub max_dist_before_start: usize,
}

#[derive(Clone)]
pub enum Mem {
    /// Distance reaching before the start of the output is invalid.
    Flat,
    /// Ring of the given length with the given initial contents (len == contents.len()):
    /// distance > len is invalid, otherwise the source index is (pos - dist) mod len.
    /// `start` is the ring index the first output byte goes to.
    Ring { contents: Vec<u8>, start: usize },
}

#[derive(Clone)]
pub struct Opts {
    pub zlib: bool,
    pub check_adler: bool,
    pub mem: Mem,
    /// Producer-side rules of C10 on top of the decoder-side ones.
    pub strict_producer: bool,
    pub max_out: usize,
    pub keep_tokens: bool,
}

impl Opts {
    pub fn raw() -> Opts {
        Opts { zlib: false, check_adler: true, mem: Mem::Flat, strict_producer: false, max_out: 1 << 27, keep_tokens: true }
    }
    pub fn zlib() -> Opts {
        Opts { zlib: true, ..Opts::raw() }
    }
    pub fn fmt(zlib: bool) -> Opts {
        if zlib {
            Opts::zlib()
        } else {
            Opts::raw()
        }
    }
}

pub fn ref_inflate(data: &[u8], o: &Opts) -> Trace {
    let mut t = Trace {
        verdict: Verdict::Starved("start"),
        blocks: vec![],
        out: vec![],
        end_bit: 0,
        consumed: 0,
        bit_at_verdict: 0,
        zlib_header: None,
        adler_stored: None,
        max_dist: 0,
        max_dist_before_start: 0,
    };
    let v = run(data, o, &mut t);
    t.verdict = v;
    t
}

fn run(data: &[u8], o: &Opts, t: &mut Trace) -> Verdict {
    let mut r = BitReader::new(data);
    macro_rules! need {
        ($e:expr, $what:expr) => {
            match $e {
                Some(v) => v,
                None => {
                    t.bit_at_verdict = r.pos;
                    return Verdict::Starved($what);
                }
            }
        };
    }
    macro_rules! invalid {
        ($why:expr) => {{
            t.bit_at_verdict = r.pos;
            return Verdict::Invalid($why);
        }};
    }
    if o.zlib {
        let cmf = need!(r.bits(8), "zlib-cmf") as u8;
        if cmf & 0x0f != 8 {
            invalid!("zlib: CM != 8");
        }
        if cmf >> 4 > 7 {
            invalid!("zlib: CINFO > 7");
        }
        let flg = need!(r.bits(8), "zlib-flg") as u8;
        t.zlib_header = Some((cmf, flg));
        if (cmf as u32 * 256 + flg as u32) % 31 != 0 {
            invalid!("zlib: FCHECK");
        }
        if flg & 0x20 != 0 {
            invalid!("zlib: FDICT set");
        }
        // documented extra rule of the crate's ring mode: the ring must hold the declared window
        if let Mem::Ring { contents, .. } = &o.mem {
            if contents.len() < (1usize << ((cmf >> 4) + 8)) {
                invalid!("zlib: declared window larger than the ring");
            }
        }
    }
    let (mut ring, ring_start): (Option<Vec<u8>>, usize) = match &o.mem {
        Mem::Flat => (None, 0),
        Mem::Ring { contents, start } => (Some(contents.clone()), *start),
    };
    let fixed_ll = fixed_litlen_lengths();
    let fixed_d = vec![5u8; 32];
    let mut saw_final = false;
    loop {
        let start_bit = r.pos;
        let bfinal = need!(r.bit(), "block-header") == 1;
        let btype = need!(r.bits(2), "block-header") as u8;
        let mut b = Block { btype, bfinal, start_bit, out_start: t.out.len(), ..Default::default() };
        match btype {
            0 => {
                r.align();
                let len = need!(r.bits(16), "stored-len");
                let nlen = need!(r.bits(16), "stored-nlen");
                if len != (!nlen & 0xffff) {
                    invalid!("stored: LEN != ~NLEN");
                }
                b.stored_len = len as usize;
                for _ in 0..len {
                    let byte = need!(r.bits(8), "stored-data") as u8;
                    push_out(t, &mut ring, ring_start, byte);
                    if t.out.len() > o.max_out {
                        return Verdict::TooBig;
                    }
                }
            }
            1 | 2 => {
                let (ll_lengths, d_lengths): (Vec<u8>, Vec<u8>) = if btype == 1 {
                    (fixed_ll.clone(), fixed_d.clone())
                } else {
                    let hlit = need!(r.bits(5), "dyn-hlit") as usize + 257;
                    let hdist = need!(r.bits(5), "dyn-hdist") as usize + 1;
                    let hclen = need!(r.bits(4), "dyn-hclen") as usize + 4;
                    b.hlit = hlit;
                    b.hdist = hdist;
                    b.hclen = hclen;
                    if hlit > 286 {
                        invalid!("dynamic: HLIT > 286");
                    }
                    if hdist > 30 {
                        invalid!("dynamic: HDIST > 30");
                    }
                    let mut cl = vec![0u8; 19];
                    for &idx in CLEN_ORDER.iter().take(hclen) {
                        cl[idx] = need!(r.bits(3), "dyn-clen-lengths") as u8;
                    }
                    b.clen_lengths = cl.clone();
                    match classify(&cl) {
                        CodeClass::Complete => {}
                        CodeClass::Oversubscribed => invalid!("dynamic: code-length code over-subscribed"),
                        _ => invalid!("dynamic: code-length code incomplete"),
                    }
                    let cl_trie = Trie::new(&cl);
                    let total = hlit + hdist;
                    let mut lens: Vec<u8> = Vec::with_capacity(total);
                    while lens.len() < total {
                        let s = match decode_sym(&cl_trie, &mut r) {
                            Sym::Ok(s, _) => s,
                            Sym::Starved => {
                                t.bit_at_verdict = r.pos;
                                return Verdict::Starved("dyn-code-lengths");
                            }
                            Sym::NoCode => invalid!("dynamic: undefined code-length code"),
                        };
                        b.n_clen_syms += 1;
                        match s {
                            0..=15 => lens.push(s as u8),
                            16 => {
                                let Some(&prev) = lens.last() else {
                                    invalid!("dynamic: repeat with no previous length")
                                };
                                let n = 3 + need!(r.bits(2), "dyn-code-lengths");
                                for _ in 0..n {
                                    lens.push(prev);
                                }
                            }
                            17 => {
                                let n = 3 + need!(r.bits(3), "dyn-code-lengths");
                                for _ in 0..n {
                                    lens.push(0);
                                }
                            }
                            _ => {
                                let n = 11 + need!(r.bits(7), "dyn-code-lengths");
                                for _ in 0..n {
                                    lens.push(0);
                                }
                            }
                        }
                        if lens.len() > total {
                            invalid!("dynamic: code-length run past HLIT+HDIST");
                        }
                    }
                    let ll = lens[..hlit].to_vec();
                    let dl = lens[hlit..].to_vec();
                    match classify(&ll) {
                        CodeClass::Complete | CodeClass::Single | CodeClass::Empty => {}
                        CodeClass::Oversubscribed => invalid!("dynamic: litlen code over-subscribed"),
                        CodeClass::Incomplete => invalid!("dynamic: litlen code incomplete"),
                    }
                    match classify(&dl) {
                        CodeClass::Complete | CodeClass::Single | CodeClass::Empty => {}
                        CodeClass::Oversubscribed => invalid!("dynamic: distance code over-subscribed"),
                        CodeClass::Incomplete => invalid!("dynamic: distance code incomplete"),
                    }
                    if o.strict_producer {
                        if classify(&ll) != CodeClass::Complete {
                            invalid!("producer: litlen code not complete");
                        }
                        if ll[256] == 0 {
                            invalid!("producer: no end-of-block code");
                        }
                    }
                    (ll, dl)
                };
                b.litlen_lengths = ll_lengths.clone();
                b.dist_lengths = d_lengths.clone();
                let ll_trie = Trie::new(&ll_lengths);
                let d_trie = Trie::new(&d_lengths);
                loop {
                    let (s, n) = match decode_sym(&ll_trie, &mut r) {
                        Sym::Ok(s, n) => (s, n),
                        Sym::Starved => {
                            t.bit_at_verdict = r.pos;
                            t.blocks.push(b);
                            return Verdict::Starved("litlen-symbol");
                        }
                        Sym::NoCode => invalid!("litlen: bit pattern with no code"),
                    };
                    b.litlen_lens_used |= 1 << n;
                    if s < 256 {
                        push_out(t, &mut ring, ring_start, s as u8);
                        if o.keep_tokens {
                            b.tokens.push(Token::Lit(s as u8));
                        }
                    } else if s == 256 {
                        break;
                    } else {
                        if s > 285 {
                            invalid!("litlen: symbol 286/287");
                        }
                        let li = (s - 257) as usize;
                        let len = LEN_BASE[li] as u32 + need!(r.bits(LEN_XBITS[li] as u32), "length-extra");
                        let (ds, dn) = match decode_sym(&d_trie, &mut r) {
                            Sym::Ok(s, n) => (s, n),
                            Sym::Starved => {
                                t.bit_at_verdict = r.pos;
                                t.blocks.push(b);
                                return Verdict::Starved("distance-symbol");
                            }
                            Sym::NoCode => invalid!("distance: bit pattern with no code"),
                        };
                        b.dist_lens_used |= 1 << dn;
                        if ds > 29 {
                            invalid!("distance: symbol 30/31");
                        }
                        let dist = DIST_BASE_T[ds as usize] as u32
                            + need!(r.bits(DIST_XBITS[ds as usize] as u32), "distance-extra");
                        let dist = dist as usize;
                        let pos = t.out.len();
                        match &mut ring {
                            None => {
                                if dist > pos {
                                    invalid!("distance before start of output (flat)");
                                }
                                for _ in 0..len {
                                    let v = t.out[t.out.len() - dist];
                                    t.out.push(v);
                                }
                            }
                            Some(rg) => {
                                let l = rg.len();
                                if dist > l {
                                    invalid!("distance larger than ring");
                                }
                                if dist > pos {
                                    t.max_dist_before_start = t.max_dist_before_start.max(dist - pos);
                                }
                                for _ in 0..len {
                                    let p = ring_start + t.out.len();
                                    let v = rg[(p + l - dist) % l];
                                    rg[p % l] = v;
                                    t.out.push(v);
                                }
                            }
                        }
                        t.max_dist = t.max_dist.max(dist);
                        if o.keep_tokens {
                            b.tokens.push(Token::Match { len: len as u16, dist: dist as u16 });
                        }
                    }
                    if t.out.len() > o.max_out {
                        return Verdict::TooBig;
                    }
                }
            }
            _ => invalid!("reserved block type 3"),
        }
        b.end_bit = r.pos;
        t.blocks.push(b);
        if o.strict_producer && saw_final {
            invalid!("producer: block after the final block");
        }
        if bfinal {
            saw_final = true;
            break;
        }
    }
    t.end_bit = r.pos;
    r.align();
    if o.zlib {
        let mut stored = 0u32;
        for _ in 0..4 {
            stored = (stored << 8) | need!(r.bits(8), "zlib-adler");
        }
        t.adler_stored = Some(stored);
        if o.check_adler && stored != adler32_def(1, &t.out) {
            invalid!("zlib: Adler-32 mismatch");
        }
    }
    t.consumed = r.pos / 8;
    t.bit_at_verdict = r.pos;
    Verdict::Complete
}

#[inline]
fn push_out(t: &mut Trace, ring: &mut Option<Vec<u8>>, ring_start: usize, b: u8) {
    if let Some(rg) = ring {
        let l = rg.len();
        let p = ring_start + t.out.len();
        rg[p % l] = b;
    }
    t.out.push(b);
}

impl Trace {
    pub fn is_complete(&self) -> bool {
        self.verdict == Verdict::Complete
    }
    pub fn tokens(&self) -> impl Iterator<Item = &Token> {
        self.blocks.iter().flat_map(|b| b.tokens.iter())
    }
}
