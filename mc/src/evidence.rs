//! Evidence files, violation records, known-findings matching, replay artefacts.
use serde_json::{json, Map, Value};
use std::collections::BTreeMap;
use std::sync::Mutex;
use std::time::Instant;

pub fn verif_dir() -> String {
    std::env::var("VERIF_DIR").unwrap_or_else(|_| "/verif".to_string())
}

pub fn tier_is_thorough(tier: &str) -> bool {
    tier == "thorough"
}

#[derive(Clone, Debug)]
pub struct Violation {
    /// Site key: identifies the failing call site / configuration / history shape, not the property.
    pub site: String,
    pub what: String,
    pub replay: Value,
}

pub struct Report {
    pub prop: String,
    pub tier: String,
    pub level: String,
    started: Instant,
    inner: Mutex<Inner>,
}

struct Inner {
    cov: Map<String, Value>,
    assumptions: Vec<String>,
    violations: Vec<Violation>,
    vcount: BTreeMap<String, u64>,
    warnings: Vec<String>,
}

static CURRENT: Mutex<Option<(String, String, String)>> = Mutex::new(None);

impl Report {
    pub fn new(prop: &str, tier: &str, level: &str) -> Report {
        *CURRENT.lock().unwrap() = Some((prop.to_string(), tier.to_string(), level.to_string()));
        Report {
            prop: prop.to_string(),
            tier: tier.to_string(),
            level: level.to_string(),
            started: Instant::now(),
            inner: Mutex::new(Inner {
                cov: Map::new(),
                assumptions: vec![],
                violations: vec![],
                vcount: BTreeMap::new(),
                warnings: vec![],
            }),
        }
    }
    pub fn thorough(&self) -> bool {
        self.tier == "thorough"
    }
    pub fn set(&self, k: &str, v: Value) {
        self.inner.lock().unwrap().cov.insert(k.to_string(), v);
    }
    pub fn add_u64(&self, k: &str, n: u64) {
        let mut g = self.inner.lock().unwrap();
        let cur = g.cov.get(k).and_then(|v| v.as_u64()).unwrap_or(0);
        g.cov.insert(k.to_string(), json!(cur + n));
    }
    pub fn get_u64(&self, k: &str) -> u64 {
        self.inner.lock().unwrap().cov.get(k).and_then(|v| v.as_u64()).unwrap_or(0)
    }
    pub fn assume(&self, s: &str) {
        let mut g = self.inner.lock().unwrap();
        if !g.assumptions.iter().any(|x| x == s) {
            g.assumptions.push(s.to_string());
        }
    }
    pub fn warn(&self, s: String) {
        eprintln!("WARNING {}", s);
        self.inner.lock().unwrap().warnings.push(s);
    }
    pub fn sample(&self, v: Value) {
        let mut g = self.inner.lock().unwrap();
        let e = g.cov.entry("samples".to_string()).or_insert_with(|| json!([]));
        if let Some(a) = e.as_array_mut() {
            if a.len() < 12 {
                a.push(v);
            }
        }
    }
    pub fn violation(&self, site: &str, what: String, replay: Value) {
        let mut g = self.inner.lock().unwrap();
        let c = g.vcount.entry(site.to_string()).or_insert(0);
        *c += 1;
        if *c <= 3 && g.violations.len() < 200 {
            g.violations.push(Violation { site: site.to_string(), what, replay });
        }
    }
    pub fn violation_count(&self) -> u64 {
        self.inner.lock().unwrap().vcount.values().sum()
    }
    pub fn elapsed(&self) -> f64 {
        self.started.elapsed().as_secs_f64()
    }

    /// Write the evidence file, print KNOWN-FINDING / VIOLATION lines, return the exit code.
    pub fn finish(&self) -> i32 {
        let known = load_known(&self.prop);
        let mut g = self.inner.lock().unwrap();
        let mut unlisted = 0u64;
        let mut known_hit: BTreeMap<String, (String, u64)> = BTreeMap::new();
        let vcount = g.vcount.clone();
        let mut lines = vec![];
        let mut seen_sites = std::collections::BTreeSet::new();
        for v in g.violations.iter() {
            if let Some(k) = known.iter().find(|k| k.status == "open" && site_matches(&k.site, &v.site)) {
                let e = known_hit.entry(k.site.clone()).or_insert((k.what.clone(), 0));
                if seen_sites.insert(v.site.clone()) {
                    e.1 += vcount.get(&v.site).copied().unwrap_or(1);
                }
            } else {
                if seen_sites.insert(v.site.clone()) {
                    unlisted += vcount.get(&v.site).copied().unwrap_or(1);
                    let mut rp = v.replay.clone();
                    if let Some(o) = rp.as_object_mut() {
                        o.insert("property".into(), json!(self.prop));
                        o.insert("site".into(), json!(v.site));
                        o.insert("what".into(), json!(v.what));
                    }
                    let path = write_replay(&self.prop, &rp);
                    lines.push(format!(
                        "VIOLATION property={} replay={} site={} count={} :: {}",
                        self.prop,
                        path,
                        v.site,
                        vcount.get(&v.site).copied().unwrap_or(1),
                        v.what
                    ));
                }
            }
        }
        for (site, (what, n)) in known_hit.iter() {
            println!("KNOWN-FINDING: property={} site={} cases={} {}", self.prop, site, n, what);
        }
        for l in &lines {
            println!("{}", l);
        }
        let total: u64 = vcount.values().sum();
        let mut cov = g.cov.clone();
        if !cov.contains_key("samples") {
            cov.insert("samples".into(), json!(["(no sample recorded)"]));
        }
        cov.insert(
            "violation_sites".into(),
            json!(vcount.iter().map(|(k, v)| json!({"site": k, "count": v})).collect::<Vec<_>>()),
        );
        cov.insert("known_findings_matched".into(), json!(known_hit.keys().collect::<Vec<_>>()));
        if !g.warnings.is_empty() {
            cov.insert("warnings".into(), json!(g.warnings));
        }
        cov.insert("hooks".into(), json!(if cfg!(feature = "hooks") { "on" } else { "unavailable" }));
        cov.insert("profile".into(), json!(if cfg!(debug_assertions) { "checked" } else { "fast" }));
        g.assumptions.push("128-bit state fingerprints are collision-free on the explored space".into());
        let ev = json!({
            "property_id": self.prop,
            "tier": self.tier,
            "seed": crate::util::seed() as i64,
            "level": self.level,
            "coverage": Value::Object(cov),
            "assumptions": g.assumptions,
            "wall_s": (self.started.elapsed().as_secs_f64() * 1000.0).round() / 1000.0,
            "violations": total,
            "violations_unlisted": unlisted,
        });
        let part = std::env::var("MC_PART").unwrap_or_default();
        if !part.is_empty() {
            // a flavour/profile part: the final (main) run merges it
            let dir = format!("{}/evidence", verif_dir());
            let _ = std::fs::create_dir_all(&dir);
            let _ = std::fs::write(format!("{}/{}.{}.part.json", dir, self.prop, part), serde_json::to_string_pretty(&ev).unwrap());
        } else {
            let ev = merge_parts(&self.prop, ev);
            write_evidence(&self.prop, &ev);
        }
        if unlisted > 0 {
            1
        } else {
            0
        }
    }
}

fn site_matches(pat: &str, site: &str) -> bool {
    if let Some(p) = pat.strip_suffix('*') {
        site.starts_with(p)
    } else {
        pat == site
    }
}

pub struct Known {
    pub status: String,
    pub site: String,
    pub what: String,
}

pub fn load_known(prop: &str) -> Vec<Known> {
    let p = format!("{}/known_findings.json", verif_dir());
    let Ok(s) = std::fs::read_to_string(&p) else { return vec![] };
    let Ok(v) = serde_json::from_str::<Value>(&s) else {
        eprintln!("MACHINERY cannot parse {}", p);
        std::process::exit(2);
    };
    let mut out = vec![];
    if let Some(a) = v.get("findings").and_then(|x| x.as_array()) {
        for e in a {
            if e.get("property").and_then(|x| x.as_str()) == Some(prop) {
                out.push(Known {
                    status: e.get("status").and_then(|x| x.as_str()).unwrap_or("").to_string(),
                    site: e.get("site").and_then(|x| x.as_str()).unwrap_or("").to_string(),
                    what: e.get("what").and_then(|x| x.as_str()).unwrap_or("").to_string(),
                });
            }
        }
    }
    out
}

pub fn write_evidence(prop: &str, ev: &Value) {
    let dir = format!("{}/evidence", verif_dir());
    let _ = std::fs::create_dir_all(&dir);
    let p = format!("{}/{}.json", dir, prop);
    std::fs::write(&p, serde_json::to_string_pretty(ev).unwrap() + "\n").expect("write evidence");
}

pub fn write_replay(prop: &str, v: &Value) -> String {
    let dir = format!("{}/replays", verif_dir());
    let _ = std::fs::create_dir_all(&dir);
    let s = serde_json::to_string_pretty(v).unwrap();
    let h = crate::util::fp128(s.as_bytes()) as u64;
    let p = format!("{}/{}-{:016x}.json", dir, prop, h);
    let _ = std::fs::write(&p, s + "\n");
    p
}

/// Evidence written when the process must exit from the watchdog.
pub fn emergency_evidence(prop: &str, kind: &str) {
    let cur = CURRENT.lock().unwrap().clone();
    let (tier, level) = cur.map(|c| (c.1, c.2)).unwrap_or(("quick".into(), "exploration".into()));
    let ev = json!({
        "property_id": prop, "tier": tier, "seed": crate::util::seed() as i64, "level": level,
        "coverage": {"evaluations": 1, "distinct_nontrivial": 2, "rule": "run aborted by watchdog", "samples": [kind],
                      "states": 1, "transitions": 1, "traces_validated_against_impl": 0, "aborted": kind},
        "wall_s": 0.0, "violations": 1
    });
    write_evidence(prop, &ev);
}

/// Merge evidence parts written by other flavours/profiles of the same check run.
fn merge_parts(prop: &str, mut ev: Value) -> Value {
    let dir = format!("{}/evidence", verif_dir());
    let Ok(rd) = std::fs::read_dir(&dir) else { return ev };
    let mut parts = Map::new();
    for e in rd.flatten() {
        let name = e.file_name().to_string_lossy().to_string();
        if name.starts_with(&format!("{}.", prop)) && name.ends_with(".part.json") {
            if let Ok(s) = std::fs::read_to_string(e.path()) {
                if let Ok(v) = serde_json::from_str::<Value>(&s) {
                    let pname = name[prop.len() + 1..name.len() - ".part.json".len()].to_string();
                    parts.insert(pname, v);
                }
            }
            let _ = std::fs::remove_file(e.path());
        }
    }
    if parts.is_empty() {
        return ev;
    }
    for (_, p) in parts.iter() {
        for k in ["evaluations", "states", "transitions", "traces_validated_against_impl", "distinct_nontrivial"] {
            let add = p["coverage"].get(k).and_then(|x| x.as_u64());
            if let Some(a) = add {
                let cur = ev["coverage"].get(k).and_then(|x| x.as_u64()).unwrap_or(0);
                // distinct counts are not additive across flavours: keep the maximum
                let nv = if k == "distinct_nontrivial" || k == "states" { cur.max(a) } else { cur + a };
                ev["coverage"][k] = json!(nv);
            }
        }
        let v = p.get("violations").and_then(|x| x.as_u64()).unwrap_or(0);
        let cur = ev.get("violations").and_then(|x| x.as_u64()).unwrap_or(0);
        ev["violations"] = json!(cur + v);
        let w = p.get("wall_s").and_then(|x| x.as_f64()).unwrap_or(0.0);
        let cw = ev.get("wall_s").and_then(|x| x.as_f64()).unwrap_or(0.0);
        ev["wall_s"] = json!(((cw + w) * 1000.0).round() / 1000.0);
    }
    let summary: Map<String, Value> = parts
        .into_iter()
        .map(|(k, v)| (k, json!({"coverage": v["coverage"], "violations": v["violations"], "wall_s": v["wall_s"]})))
        .collect();
    ev["coverage"]["parts"] = Value::Object(summary);
    ev
}
