//! Generators: plaintext corpora (A2/A3/RGS/Shapes), an independent DEFLATE bit writer and the
//! stream grammar G of DESIGN 4.3. Shares nothing with the crate under test.
use crate::refmodel::{
    adler32_def, canonical_codes, fixed_litlen_lengths, Token, CLEN_ORDER, DIST_BASE_T, DIST_XBITS, LEN_BASE, LEN_XBITS,
};
use crate::util::Lcg;

// ---------------------------------------------------------------------------------------
// Plaintext corpora
// ---------------------------------------------------------------------------------------

/// All strings over the first `k` symbols of `alpha` with length 0..=n, in length-lex order.
pub fn all_strings(alpha: &[u8], n: usize) -> Vec<Vec<u8>> {
    let mut out = vec![vec![]];
    let mut start = 0;
    for _ in 0..n {
        let end = out.len();
        for i in start..end {
            for &a in alpha {
                let mut v = out[i].clone();
                v.push(a);
                out.push(v);
            }
        }
        start = end;
    }
    out
}

/// i-th string of length `len` over an alphabet of size k (base-k digits), without allocation of the whole set.
pub fn nth_string(alpha: &[u8], len: usize, mut i: u64, out: &mut Vec<u8>) {
    out.clear();
    let k = alpha.len() as u64;
    for _ in 0..len {
        out.push(alpha[(i % k) as usize]);
        i /= k;
    }
}

/// All restricted-growth strings of length exactly n with at most k distinct symbols
/// (every byte-equality pattern of that length).
pub fn rgs(n: usize, k: usize) -> Vec<Vec<u8>> {
    fn rec(cur: &mut Vec<u8>, maxv: u8, n: usize, k: usize, out: &mut Vec<Vec<u8>>) {
        if cur.len() == n {
            out.push(cur.clone());
            return;
        }
        let lim = ((maxv as usize + 1).min(k - 1)) as u8;
        for v in 0..=lim {
            cur.push(v);
            rec(cur, maxv.max(v), n, k, out);
            cur.pop();
        }
    }
    let mut out = vec![];
    if n == 0 {
        return vec![vec![]];
    }
    let mut cur = vec![0u8];
    rec(&mut cur, 0, n, k.max(1), &mut out);
    out
}

#[derive(Clone, Copy, Debug, PartialEq, Eq)]
pub enum Seg {
    /// zeros
    Z,
    /// LCG-incompressible
    R,
    /// incompressible, all bytes >= 144 (9-bit fixed codes)
    H,
    /// periodic with period p
    P(usize),
    /// copy of what lies D bytes back (falls back to R while fewer than D bytes exist)
    C(usize),
    /// skewed alphabet text (long Huffman codes)
    T,
    /// incompressible with a planted 3-byte match every 40 bytes
    S3,
    /// 0xff bytes
    F,
    /// strongly skewed symbols (geometric over 12 values, no repeats long enough to match
    /// often) with bursts of distinct once-only byte values: maximum-depth (14/15-bit) literal
    /// codes occurring several in a row
    K,
}

pub fn shape_name(segs: &[(Seg, usize)]) -> String {
    segs.iter().map(|(s, n)| format!("{:?}x{}", s, n)).collect::<Vec<_>>().join("+")
}

/// Build the bytes of a shape. `salt` perturbs content constants only (VERIF_SEED).
pub fn build_shape(segs: &[(Seg, usize)], salt: u64) -> Vec<u8> {
    let mut out: Vec<u8> = Vec::with_capacity(segs.iter().map(|s| s.1).sum());
    let mut lcg = Lcg(0x1234_5678_9abc_def0 ^ salt.wrapping_mul(0x9E37_79B9_7F4A_7C15));
    for (si, &(seg, n)) in segs.iter().enumerate() {
        match seg {
            Seg::Z => out.extend(std::iter::repeat(0u8).take(n)),
            Seg::F => out.extend(std::iter::repeat(0xffu8).take(n)),
            Seg::R => {
                for _ in 0..n {
                    out.push(lcg.byte());
                }
            }
            Seg::H => {
                for _ in 0..n {
                    out.push(144 + (lcg.next_u32() % 112) as u8);
                }
            }
            Seg::P(p) => {
                let pat: Vec<u8> = (0..p).map(|i| (i as u8).wrapping_mul(37).wrapping_add(si as u8 * 11 + 1)).collect();
                for i in 0..n {
                    out.push(pat[i % p]);
                }
            }
            Seg::C(d) => {
                for _ in 0..n {
                    if out.len() >= d {
                        let v = out[out.len() - d];
                        out.push(v);
                    } else {
                        out.push(lcg.byte());
                    }
                }
            }
            Seg::T => {
                // geometric-ish distribution over 40 symbols: forces long codes
                for _ in 0..n {
                    let x = lcg.next_u32();
                    let z = (x | 1).trailing_zeros().min(20) as u8;
                    let y = ((x >> 24) & 1) as u8;
                    out.push(b'a' + z * 2 + y);
                }
            }
            Seg::K => {
                let start = out.len();
                let mut next_rare = 0x40u8;
                for i in 0..n {
                    let _ = start;
                    // a burst of 6 distinct once-only values every 1777 bytes (at most 180 of them)
                    if i % 1777 >= 1000 && i % 1777 < 1006 && next_rare < 0xf4 {
                        out.push(next_rare);
                        next_rare += 1;
                    } else {
                        let x = lcg.next_u32();
                        let z = (x | (1 << 11)).trailing_zeros() as u8; // 0..=11, P(z) ~ 2^-(z+1)
                        // alternate two value families so that few 3-byte matches exist
                        out.push(if (x >> 20) & 1 == 0 { z } else { 0x20 + z });
                    }
                }
            }
            Seg::S3 => {
                let start = out.len();
                for i in 0..n {
                    let k = i % 40;
                    if i >= 40 && k < 3 {
                        // copy the 3 bytes that started the previous 40-byte group
                        let v = out[start + (i - 40)];
                        out.push(v);
                    } else {
                        out.push(lcg.byte());
                    }
                }
            }
        }
    }
    out
}

/// Threshold menu Θ (DESIGN 4.1): every constant compared against in the compressor, ±1.
pub const THETA_FULL: &[usize] = &[
    1, 2, 3, 31, 32, 33, 47, 48, 257, 258, 259, 4095, 4096, 4097, 31743, 31744, 31745, 32767, 32768, 32769, 65535,
    65536, 65537, 85195, 85196, 85197, 98309,
];
pub const THETA_QUICK: &[usize] = &[1, 3, 32, 258, 259, 4097, 31744, 32768, 32769, 65536, 85196, 98309];

// ---------------------------------------------------------------------------------------
// Bit writer
// ---------------------------------------------------------------------------------------

#[derive(Clone, Default)]
pub struct BitWriter {
    pub bytes: Vec<u8>,
    pub nbits: usize,
}

impl BitWriter {
    pub fn new() -> Self {
        Self::default()
    }
    pub fn put_bit(&mut self, b: u32) {
        if self.nbits & 7 == 0 {
            self.bytes.push(0);
        }
        if b & 1 != 0 {
            let l = self.bytes.len() - 1;
            self.bytes[l] |= 1 << (self.nbits & 7);
        }
        self.nbits += 1;
    }
    /// value, least-significant bit first
    pub fn put_bits(&mut self, v: u32, n: u32) {
        for i in 0..n {
            self.put_bit(v >> i);
        }
    }
    /// Huffman code, most-significant bit first
    pub fn put_code(&mut self, code: u16, len: u8) {
        for i in (0..len).rev() {
            self.put_bit((code >> i) as u32);
        }
    }
    pub fn align(&mut self) {
        while self.nbits & 7 != 0 {
            self.put_bit(0);
        }
    }
    pub fn put_byte(&mut self, b: u8) {
        self.put_bits(b as u32, 8);
    }
}

// ---------------------------------------------------------------------------------------
// Stream grammar
// ---------------------------------------------------------------------------------------

/// One operation of the code-length alphabet.
#[derive(Clone, Copy, Debug, PartialEq, Eq)]
pub enum ClOp {
    Len(u8),
    /// repeat previous 3..=6
    Rep(u8),
    /// zeros 3..=10
    Z17(u8),
    /// zeros 11..=138
    Z18(u8),
}

impl ClOp {
    pub fn sym(&self) -> usize {
        match self {
            ClOp::Len(l) => *l as usize,
            ClOp::Rep(_) => 16,
            ClOp::Z17(_) => 17,
            ClOp::Z18(_) => 18,
        }
    }
    pub fn count(&self) -> usize {
        match self {
            ClOp::Len(_) => 1,
            ClOp::Rep(n) | ClOp::Z17(n) | ClOp::Z18(n) => *n as usize,
        }
    }
}

/// Plain encoding: every length as a literal code-length symbol.
pub fn clops_literal(lens: &[u8]) -> Vec<ClOp> {
    lens.iter().map(|&l| ClOp::Len(l)).collect()
}

/// Greedy run-length encoding of a length vector (runs may cross the litlen/distance boundary,
/// because the vector passed in is the concatenation).
pub fn clops_greedy(lens: &[u8]) -> Vec<ClOp> {
    let mut out = vec![];
    let mut i = 0;
    while i < lens.len() {
        let l = lens[i];
        let mut j = i;
        while j < lens.len() && lens[j] == l {
            j += 1;
        }
        let mut run = j - i;
        if l == 0 {
            while run >= 11 {
                let n = run.min(138);
                out.push(ClOp::Z18(n as u8));
                run -= n;
            }
            if run >= 3 {
                out.push(ClOp::Z17(run as u8));
                run = 0;
            }
            for _ in 0..run {
                out.push(ClOp::Len(0));
            }
        } else {
            out.push(ClOp::Len(l));
            run -= 1;
            while run >= 3 {
                let n = run.min(6);
                out.push(ClOp::Rep(n as u8));
                run -= n;
            }
            for _ in 0..run {
                out.push(ClOp::Len(l));
            }
        }
        i = j;
    }
    out
}

/// Complete code over n used symbols with lengths differing by at most one ("balanced").
/// n == 1 yields a single code of length 1 (incomplete; allowed for litlen/distance only).
pub fn balanced_lengths(n: usize) -> Vec<u8> {
    if n == 0 {
        return vec![];
    }
    if n == 1 {
        return vec![1];
    }
    let k = usize::BITS - 1 - n.leading_zeros(); // floor(log2 n)
    let short = (1usize << (k + 1)) - n; // symbols with length k
    let mut v = vec![];
    for i in 0..n {
        v.push(if i < short { k as u8 } else { (k + 1) as u8 });
    }
    if n == 1 << k {
        v.iter_mut().for_each(|x| *x = k as u8);
    }
    v
}

/// Chain code with maximum length l: multiset {1,2,..,l-1,l,l}: l+1 symbols, Kraft sum 1.
pub fn chain_lengths(l: u8) -> Vec<u8> {
    let mut v: Vec<u8> = (1..l).collect();
    v.push(l);
    v.push(l);
    v
}

#[derive(Clone, Debug)]
pub struct DynSpec {
    /// litlen code lengths, length = HLIT (257..=286)
    pub ll: Vec<u8>,
    /// distance code lengths, length = HDIST (1..=30)
    pub dl: Vec<u8>,
    /// code-length ops for ll ++ dl
    pub ops: Vec<ClOp>,
    /// the code-length code (19 lengths) — must be complete and cover every used op symbol
    pub cl: [u8; 19],
    /// HCLEN (4..=19); must cover the last non-zero cl in CLEN_ORDER
    pub hclen: usize,
}

/// Code-length code for a set of ops: balanced over the used symbols (always complete, <= 5 bits).
/// A lone used symbol gets a dummy partner so the code is complete.
pub fn cl_code_balanced(ops: &[ClOp]) -> [u8; 19] {
    let mut used = [false; 19];
    for o in ops {
        used[o.sym()] = true;
    }
    let mut n = used.iter().filter(|&&u| u).count();
    if n < 2 {
        for s in [0usize, 1, 2] {
            if !used[s] {
                used[s] = true;
                n += 1;
                if n >= 2 {
                    break;
                }
            }
        }
    }
    let lens = balanced_lengths(n);
    let mut cl = [0u8; 19];
    // Longest codes to the highest symbols, matching canonical expectations loosely (any assignment is valid).
    let mut k = 0;
    for s in 0..19 {
        if used[s] {
            cl[s] = lens[k];
            k += 1;
        }
    }
    cl
}

/// Code-length code using a chain of max length `l` (<= 7) over the used symbols, padded with
/// unused symbols; falls back to balanced if it does not fit.
pub fn cl_code_chain(ops: &[ClOp], l: u8) -> Option<[u8; 19]> {
    let mut used = [false; 19];
    for o in ops {
        used[o.sym()] = true;
    }
    let chain = chain_lengths(l); // l+1 symbols
    let nused = used.iter().filter(|&&u| u).count();
    if nused > chain.len() || chain.len() > 19 {
        return None;
    }
    let mut cl = [0u8; 19];
    // used symbols get the deepest codes
    let mut lens = chain.clone();
    lens.sort_by(|a, b| b.cmp(a));
    let mut k = 0;
    for s in 0..19 {
        if used[s] {
            cl[s] = lens[k];
            k += 1;
        }
    }
    for s in 0..19 {
        if k >= lens.len() {
            break;
        }
        if !used[s] {
            cl[s] = lens[k];
            k += 1;
        }
    }
    Some(cl)
}

pub fn min_hclen(cl: &[u8; 19]) -> usize {
    let mut h = 4;
    for (i, &idx) in CLEN_ORDER.iter().enumerate() {
        if cl[idx] != 0 {
            h = h.max(i + 1);
        }
    }
    h
}

impl DynSpec {
    pub fn new(ll: Vec<u8>, dl: Vec<u8>) -> DynSpec {
        let mut all = ll.clone();
        all.extend_from_slice(&dl);
        let ops = clops_greedy(&all);
        let cl = cl_code_balanced(&ops);
        let hclen = min_hclen(&cl);
        DynSpec { ll, dl, ops, cl, hclen }
    }
    pub fn with_ops(ll: Vec<u8>, dl: Vec<u8>, ops: Vec<ClOp>) -> DynSpec {
        let cl = cl_code_balanced(&ops);
        let hclen = min_hclen(&cl);
        DynSpec { ll, dl, ops, cl, hclen }
    }
}

#[derive(Clone, Debug)]
pub struct GenStream {
    pub bytes: Vec<u8>,
    pub plain: Vec<u8>,
    /// bit length of the deflate part (header excluded)
    pub deflate_bits: usize,
    pub zlib: bool,
    pub desc: String,
    /// number of blocks, for block-boundary checks
    pub nblocks: usize,
    /// bit offset (within bytes, header included) where each block starts
    pub block_starts: Vec<usize>,
    /// plaintext length at each block start
    pub block_out_starts: Vec<usize>,
}

impl GenStream {
    /// exact encoded length: header + ceil(bits/8) + trailer
    pub fn encoded_len(&self) -> usize {
        self.bytes.len()
    }
}

pub struct StreamBuilder {
    w: BitWriter,
    plain: Vec<u8>,
    zlib: bool,
    desc: Vec<String>,
    nblocks: usize,
    block_starts: Vec<usize>,
    block_out_starts: Vec<usize>,
    /// allow matches reaching before the start (ring-mode streams); plain then holds the
    /// bytes assuming a zero-filled window before the start
    pub pre_window_zero: bool,
}

impl StreamBuilder {
    pub fn new(zlib: Option<(u8, u8)>) -> StreamBuilder {
        let mut w = BitWriter::new();
        let mut desc = vec![];
        if let Some((cinfo, flevel)) = zlib {
            let cmf = 8u32 | ((cinfo as u32) << 4);
            let mut flg = (flevel as u32) << 6;
            let rem = (cmf * 256 + flg) % 31;
            if rem != 0 {
                flg += 31 - rem;
            }
            w.put_byte(cmf as u8);
            w.put_byte(flg as u8);
            desc.push(format!("zlib(cinfo={},flevel={})", cinfo, flevel));
        }
        StreamBuilder {
            w,
            plain: vec![],
            zlib: zlib.is_some(),
            desc,
            nblocks: 0,
            block_starts: vec![],
            block_out_starts: vec![],
            pre_window_zero: false,
        }
    }
    pub fn bitpos(&self) -> usize {
        self.w.nbits
    }
    pub fn plain_len(&self) -> usize {
        self.plain.len()
    }
    fn begin_block(&mut self, bfinal: bool, btype: u32) {
        self.block_starts.push(self.w.nbits);
        self.block_out_starts.push(self.plain.len());
        self.nblocks += 1;
        self.w.put_bit(bfinal as u32);
        self.w.put_bits(btype, 2);
    }
    fn apply(&mut self, tok: &Token) {
        match *tok {
            Token::Lit(b) => self.plain.push(b),
            Token::Match { len, dist } => {
                for _ in 0..len {
                    let v = if (dist as usize) <= self.plain.len() {
                        self.plain[self.plain.len() - dist as usize]
                    } else {
                        assert!(self.pre_window_zero, "generator: match before start");
                        0
                    };
                    self.plain.push(v);
                }
            }
        }
    }
    pub fn stored(&mut self, data: &[u8], bfinal: bool) -> &mut Self {
        assert!(data.len() <= 65535);
        self.begin_block(bfinal, 0);
        self.w.align();
        self.w.put_bits(data.len() as u32, 16);
        self.w.put_bits(!(data.len() as u32) & 0xffff, 16);
        for &b in data {
            self.w.put_byte(b);
        }
        self.plain.extend_from_slice(data);
        self.desc.push(format!("stored({}){}", data.len(), if bfinal { "!" } else { "" }));
        self
    }
    fn put_tokens(&mut self, tokens: &[Token], ll_len: &[u8], ll_code: &[u16], d_len: &[u8], d_code: &[u16]) {
        for t in tokens {
            match *t {
                Token::Lit(b) => {
                    assert!(ll_len[b as usize] != 0, "generator: literal without code");
                    self.w.put_code(ll_code[b as usize], ll_len[b as usize]);
                }
                Token::Match { len, dist } => {
                    let (ls, lx, lxv) = len_symbol(len);
                    assert!(ll_len[ls] != 0, "generator: length symbol without code");
                    self.w.put_code(ll_code[ls], ll_len[ls]);
                    self.w.put_bits(lxv, lx);
                    let (ds, dx, dxv) = dist_symbol(dist);
                    assert!(d_len[ds] != 0, "generator: distance symbol without code");
                    self.w.put_code(d_code[ds], d_len[ds]);
                    self.w.put_bits(dxv, dx);
                }
            }
            self.apply(t);
        }
        assert!(ll_len[256] != 0);
        self.w.put_code(ll_code[256], ll_len[256]);
    }
    pub fn fixed(&mut self, tokens: &[Token], bfinal: bool) -> &mut Self {
        self.begin_block(bfinal, 1);
        let ll = fixed_litlen_lengths();
        let llc = canonical_codes(&ll);
        let dl = vec![5u8; 32];
        let dc = canonical_codes(&dl);
        self.put_tokens(tokens, &ll, &llc, &dl, &dc);
        self.desc.push(format!("fixed({} tok){}", tokens.len(), if bfinal { "!" } else { "" }));
        self
    }
    pub fn dynamic(&mut self, spec: &DynSpec, tokens: &[Token], bfinal: bool) -> &mut Self {
        self.begin_block(bfinal, 2);
        assert!((257..=286).contains(&spec.ll.len()) && (1..=30).contains(&spec.dl.len()));
        self.w.put_bits((spec.ll.len() - 257) as u32, 5);
        self.w.put_bits((spec.dl.len() - 1) as u32, 5);
        assert!((4..=19).contains(&spec.hclen) && spec.hclen >= min_hclen(&spec.cl));
        self.w.put_bits((spec.hclen - 4) as u32, 4);
        for &idx in CLEN_ORDER.iter().take(spec.hclen) {
            assert!(spec.cl[idx] <= 7);
            self.w.put_bits(spec.cl[idx] as u32, 3);
        }
        let clc = canonical_codes(&spec.cl);
        let mut n = 0;
        for op in &spec.ops {
            let s = op.sym();
            assert!(spec.cl[s] != 0, "generator: code-length symbol {} without code", s);
            self.w.put_code(clc[s], spec.cl[s]);
            match *op {
                ClOp::Len(_) => {}
                ClOp::Rep(c) => {
                    assert!((3..=6).contains(&c));
                    self.w.put_bits(c as u32 - 3, 2)
                }
                ClOp::Z17(c) => {
                    assert!((3..=10).contains(&c));
                    self.w.put_bits(c as u32 - 3, 3)
                }
                ClOp::Z18(c) => {
                    assert!((11..=138).contains(&c));
                    self.w.put_bits(c as u32 - 11, 7)
                }
            }
            n += op.count();
        }
        assert_eq!(n, spec.ll.len() + spec.dl.len(), "generator: ops do not cover HLIT+HDIST");
        let llc = canonical_codes(&spec.ll);
        let dc = canonical_codes(&spec.dl);
        self.put_tokens(tokens, &spec.ll, &llc, &spec.dl, &dc);
        self.desc.push(format!(
            "dyn(hlit={},hdist={},hclen={},{} ops,{} tok,maxll={},maxd={}){}",
            spec.ll.len(),
            spec.dl.len(),
            spec.hclen,
            spec.ops.len(),
            tokens.len(),
            spec.ll.iter().max().unwrap(),
            spec.dl.iter().max().unwrap(),
            if bfinal { "!" } else { "" }
        ));
        self
    }
    /// Append arbitrary bytes at the current *bit* position (after the blocks written so far) and
    /// return the raw byte string together with the plaintext of the valid part. No trailer.
    pub fn finish_with_raw_tail(mut self, tail: &[u8]) -> (Vec<u8>, Vec<u8>) {
        for &b in tail {
            self.w.put_byte(b);
        }
        self.w.align();
        (self.w.bytes, self.plain)
    }

    pub fn finish(mut self) -> GenStream {
        let deflate_bits = self.w.nbits - if self.zlib { 16 } else { 0 };
        self.w.align();
        if self.zlib {
            let a = adler32_def(1, &self.plain);
            for i in (0..4).rev() {
                self.w.put_byte((a >> (8 * i)) as u8);
            }
        }
        GenStream {
            bytes: self.w.bytes,
            plain: self.plain,
            deflate_bits,
            zlib: self.zlib,
            desc: self.desc.join(" "),
            nblocks: self.nblocks,
            block_starts: self.block_starts,
            block_out_starts: self.block_out_starts,
        }
    }
}

/// (symbol, number of extra bits, extra value) for a match length 3..=258.
pub fn len_symbol(len: u16) -> (usize, u32, u32) {
    assert!((3..=258).contains(&len));
    if len == 258 {
        return (285, 0, 0);
    }
    let mut i = 0;
    while i + 1 < 28 && LEN_BASE[i + 1] <= len {
        i += 1;
    }
    (257 + i, LEN_XBITS[i] as u32, (len - LEN_BASE[i]) as u32)
}

/// (symbol, number of extra bits, extra value) for a distance 1..=32768.
pub fn dist_symbol(dist: u16) -> (usize, u32, u32) {
    let d = dist as u32;
    let d = if d == 0 { 32768 } else { d };
    let mut i = 0;
    while i + 1 < 30 && (DIST_BASE_T[i + 1] as u32) <= d {
        i += 1;
    }
    (i, DIST_XBITS[i] as u32, d - DIST_BASE_T[i] as u32)
}

/// Symbols (litlen, distance) used by a token list, EOB included.
pub fn used_symbols(tokens: &[Token]) -> (Vec<usize>, Vec<usize>) {
    let mut ll = std::collections::BTreeSet::new();
    let mut d = std::collections::BTreeSet::new();
    ll.insert(256usize);
    for t in tokens {
        match *t {
            Token::Lit(b) => {
                ll.insert(b as usize);
            }
            Token::Match { len, dist } => {
                ll.insert(len_symbol(len).0);
                d.insert(dist_symbol(dist).0);
            }
        }
    }
    (ll.into_iter().collect(), d.into_iter().collect())
}

#[derive(Clone, Copy, Debug, PartialEq, Eq)]
pub enum CodeShape {
    /// balanced complete code over the used symbols (single symbol -> one 1-bit code)
    Flat,
    /// chain code of max length L; used symbols deepest
    ChainDeep(u8),
    /// chain code of max length L; used symbols shallowest
    ChainShallow(u8),
    /// maximal table (all symbols present)
    Full,
}

/// Assign code lengths to an alphabet of `nsyms` symbols so that all `used` symbols have codes.
/// Returns a vector trimmed to the last non-zero entry (at least `min_len` long).
pub fn make_lengths(used: &[usize], nsyms: usize, min_len: usize, shape: CodeShape) -> Option<Vec<u8>> {
    let mut v = vec![0u8; nsyms];
    match shape {
        CodeShape::Flat => {
            let lens = balanced_lengths(used.len());
            for (i, &s) in used.iter().enumerate() {
                v[s] = lens[i];
            }
        }
        CodeShape::ChainDeep(l) | CodeShape::ChainShallow(l) => {
            let mut chain = chain_lengths(l);
            if used.len() > chain.len() || chain.len() > nsyms {
                return None;
            }
            if matches!(shape, CodeShape::ChainDeep(_)) {
                chain.sort_by(|a, b| b.cmp(a));
            }
            let mut k = 0;
            for &s in used {
                v[s] = chain[k];
                k += 1;
            }
            // pad with unused symbols, lowest first
            for s in 0..nsyms {
                if k >= chain.len() {
                    break;
                }
                if v[s] == 0 && !used.contains(&s) {
                    v[s] = chain[k];
                    k += 1;
                }
            }
            if k < chain.len() {
                return None;
            }
        }
        CodeShape::Full => {
            let lens = balanced_lengths(nsyms);
            // give the shorter codes to the lowest symbols
            for s in 0..nsyms {
                v[s] = lens[s];
            }
        }
    }
    let mut n = nsyms;
    while n > min_len && v[n - 1] == 0 {
        n -= 1;
    }
    v.truncate(n);
    Some(v)
}

/// Build a DynSpec for a token list with the given code shapes.
pub fn dyn_spec_for(tokens: &[Token], lls: CodeShape, ds: CodeShape) -> Option<DynSpec> {
    let (ull, ud) = used_symbols(tokens);
    let ll = make_lengths(&ull, 286, 257, lls)?;
    let dl = if ud.is_empty() && ds == CodeShape::Flat {
        vec![0u8] // HDIST = 1, all-zero distance table
    } else {
        make_lengths(&ud, 30, 1, ds)?
    };
    Some(DynSpec::new(ll, dl))
}

/// Filler that moves the bit position: an empty fixed block is 10 bits (+2 mod 8), a fixed block
/// holding one 9-bit literal is 19 bits (+3 mod 8).
pub fn align_filler(b: &mut StreamBuilder, target_mod8: usize) {
    let mut guard = 0;
    while b.bitpos() % 8 != target_mod8 {
        let delta = (target_mod8 + 8 - b.bitpos() % 8) % 8;
        if delta % 2 == 1 {
            b.fixed(&[Token::Lit(0x90)], false);
        } else {
            b.fixed(&[], false);
        }
        guard += 1;
        assert!(guard < 16);
    }
}
