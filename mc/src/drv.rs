//! Drivers: one real object + the caller-side buffers, forkable, fingerprintable.
use crate::util::H128;
use miniz_oxide::inflate::core::{decompress_with_limit, DecompressorOxide};
use miniz_oxide::inflate::TINFLStatus;
use std::hash::Hasher;

pub const F_ZLIB: u32 = 1;
pub const F_MORE: u32 = 2;
pub const F_FLAT: u32 = 4;
pub const F_ADLER: u32 = 8;
pub const F_IGN: u32 = 64;
pub const F_BB: u32 = 128;

pub fn status_name(s: TINFLStatus) -> &'static str {
    match s as i8 {
        -4 => "FailedCannotMakeProgress",
        -3 => "BadParam",
        -2 => "Adler32Mismatch",
        -1 => "Failed",
        0 => "Done",
        1 => "NeedsMoreInput",
        2 => "HasMoreOutput",
        3 => "BlockBoundary",
        _ => "?",
    }
}

#[cfg(feature = "hooks")]
pub fn dec_fp(r: &DecompressorOxide, h: &mut H128) {
    r.verif_hash(h);
}
#[cfg(not(feature = "hooks"))]
pub fn dec_fp(_r: &DecompressorOxide, _h: &mut H128) {}

#[cfg(feature = "hooks")]
pub fn dec_state_name(r: &DecompressorOxide) -> &'static str {
    r.verif_state_name()
}
#[cfg(not(feature = "hooks"))]
pub fn dec_state_name(_r: &DecompressorOxide) -> &'static str {
    "unmeasured"
}

pub const HOOKS: bool = cfg!(feature = "hooks");

#[derive(Clone, Copy, PartialEq, Eq, Debug)]
pub enum Mode {
    Flat,
    Ring,
}

/// Low-level decoder driver. The input is a fixed byte string; the caller reveals it
/// incrementally (`avail_end`), the decoder consumes from `in_pos`.
#[derive(Clone)]
pub struct DecDrv {
    pub r: Box<DecompressorOxide>,
    pub mode: Mode,
    /// flat: whole output buffer (capacity fixed); ring: the ring
    pub buf: Vec<u8>,
    pub out_pos: usize,
    pub in_pos: usize,
    pub avail_end: usize,
    /// total bytes delivered so far
    pub delivered: usize,
    /// concatenated output (kept only when `keep_out`)
    pub out: Vec<u8>,
    pub keep_out: bool,
    pub base_flags: u32,
    pub last: Option<TINFLStatus>,
    pub calls: u32,
    /// announce more input even when everything given has been revealed (prefix experiments)
    pub more_forever: bool,
}

#[derive(Clone, Copy, Debug)]
pub struct StepObs {
    pub status: TINFLStatus,
    pub consumed: usize,
    pub written: usize,
    pub offered: usize,
    pub granted: usize,
}

impl DecDrv {
    pub fn new(mode: Mode, buf_len: usize, base_flags: u32, fill: u8) -> DecDrv {
        DecDrv {
            r: Box::new(DecompressorOxide::new()),
            mode,
            buf: vec![fill; buf_len],
            out_pos: 0,
            in_pos: 0,
            avail_end: 0,
            delivered: 0,
            out: vec![],
            keep_out: true,
            base_flags,
            last: None,
            calls: 0,
            more_forever: false,
        }
    }

    pub fn terminal(&self) -> bool {
        match self.last {
            Some(s) => (s as i8) <= 0,
            None => false,
        }
    }

    /// Reveal `add_in` more input bytes, grant `budget` bytes of output, make one call.
    pub fn step(&mut self, data: &[u8], add_in: usize, budget: usize) -> StepObs {
        self.avail_end = self.avail_end.saturating_add(add_in).min(data.len());
        let mut flags = self.base_flags;
        if self.mode == Mode::Flat {
            flags |= F_FLAT;
        }
        if self.avail_end < data.len() || self.more_forever {
            flags |= F_MORE;
        }
        if self.mode == Mode::Ring && self.out_pos == self.buf.len() {
            self.out_pos = 0;
        }
        let room = self.buf.len() - self.out_pos;
        let granted = budget.min(room);
        let inp = &data[self.in_pos..self.avail_end];
        let (status, consumed, written) =
            decompress_with_limit(&mut self.r, inp, &mut self.buf, self.out_pos, budget, flags);
        let obs = StepObs { status, consumed, written, offered: inp.len(), granted };
        self.calls += 1;
        self.last = Some(status);
        if consumed <= inp.len() && written <= granted {
            if self.keep_out {
                self.out.extend_from_slice(&self.buf[self.out_pos..self.out_pos + written]);
            }
            self.in_pos += consumed;
            self.out_pos += written;
            self.delivered += written;
        }
        obs
    }

    pub fn fingerprint(&self, extra: u64) -> u128 {
        let mut h = H128::new();
        dec_fp(&self.r, &mut h);
        h.write_usize(self.in_pos);
        h.write_usize(self.avail_end);
        h.write_usize(self.out_pos);
        h.write_usize(self.delivered);
        h.write_u64(extra);
        h.write_i8(self.last.map(|s| s as i8).unwrap_or(99));
        match self.mode {
            // flat: buffer contents before out_pos are determined by `delivered` (checked prefix)
            Mode::Flat => {}
            Mode::Ring => h.write(&self.buf),
        }
        h.finish128()
    }
}

/// Result of a complete driven decode.
#[derive(Clone, Debug, PartialEq, Eq)]
pub struct DecResult {
    pub status: TINFLStatus,
    pub out: Vec<u8>,
    pub consumed: usize,
    pub calls: u32,
}

/// Decode `data` with constant schedule (chunk, budget) until terminal / stuck.
/// chunk == usize::MAX = everything at once; budget == usize::MAX = unlimited.
pub fn run_const(
    data: &[u8],
    mode: Mode,
    buf_len: usize,
    base_flags: u32,
    chunk: usize,
    budget: usize,
    fill: u8,
) -> DecResult {
    let mut d = DecDrv::new(mode, buf_len, base_flags, fill);
    drive(&mut d, data, chunk, budget, &mut |_, _| {});
    DecResult { status: d.last.unwrap(), out: d.out, consumed: d.in_pos, calls: d.calls }
}

/// One-call flat decode with everything offered and no more input announced.
pub fn run_once_flat(data: &[u8], zlib: bool, cap: usize) -> DecResult {
    run_const(data, Mode::Flat, cap, if zlib { F_ZLIB } else { 0 }, usize::MAX, usize::MAX, 0)
}

// ---------------------------------------------------------------------------------------
// Streaming inflate wrapper
// ---------------------------------------------------------------------------------------
use miniz_oxide::inflate::stream::{inflate, InflateState};
use miniz_oxide::{DataFormat, MZError, MZFlush, MZResult, MZStatus};

pub fn mzres_code(r: &MZResult) -> i32 {
    match r {
        Ok(s) => *s as i32,
        Err(e) => *e as i32,
    }
}

pub fn mzres_name(r: &MZResult) -> &'static str {
    match mzres_code(r) {
        0 => "Ok",
        1 => "StreamEnd",
        2 => "NeedDict",
        -1 => "ErrNo",
        -2 => "Stream",
        -3 => "Data",
        -4 => "Mem",
        -5 => "Buf",
        -6 => "Version",
        -10000 => "Param",
        _ => "?",
    }
}

#[derive(Clone, Debug, PartialEq, Eq)]
pub struct InfResult {
    pub code: i32,
    pub out: Vec<u8>,
    pub consumed: usize,
    pub calls: u32,
}

/// The usual driver loop: `inflate(state, next input chunk, next output chunk, flush)` with
/// constant chunk sizes until StreamEnd / error / call limit.
pub fn inflate_loop_const(data: &[u8], fmt: DataFormat, chunk: usize, room: usize, flush: MZFlush) -> InfResult {
    let mut st = InflateState::new_boxed(fmt);
    inflate_loop_from(&mut st, data, 0, chunk, room, flush, Vec::new())
}

pub fn inflate_loop_from(
    st: &mut InflateState,
    data: &[u8],
    mut ip: usize,
    chunk: usize,
    room: usize,
    flush: MZFlush,
    mut out: Vec<u8>,
) -> InfResult {
    // "unlimited" room is served in 1 MiB pieces; an explicit room is honoured exactly (a single
    // Finish call needs all of it)
    let mut buf = vec![0u8; if room > (1 << 30) { 1 << 20 } else { room }];
    let mut calls = 0u32;
    // every call either makes progress or is one of a few idle calls; the absolute cap only guards
    // against a wrapper that "progresses" forever
    let limit = 400_000_000u32;
    let mut idle = 0u32;
    let mut code;
    loop {
        let end = ip.saturating_add(chunk).min(data.len());
        let r = inflate(st, &data[ip..end], &mut buf, flush);
        calls += 1;
        if r.bytes_consumed > end - ip || r.bytes_written > buf.len() {
            return InfResult { code: -9999, out, consumed: ip, calls };
        }
        ip += r.bytes_consumed;
        out.extend_from_slice(&buf[..r.bytes_written]);
        code = mzres_code(&r.status);
        if code != 0 {
            break;
        }
        idle = if r.bytes_consumed == 0 && r.bytes_written == 0 { idle + 1 } else { 0 };
        if calls > limit || idle > 16 {
            code = -7777; // livelock marker
            break;
        }
        if r.bytes_consumed == 0 && r.bytes_written == 0 && ip == data.len() {
            // Ok with no progress and nothing left to offer: starved
            code = -7778;
            break;
        }
    }
    InfResult { code, out, consumed: ip, calls }
}

#[cfg(feature = "hooks")]
pub fn inf_fp(s: &InflateState, h: &mut H128) {
    s.verif_hash(h);
}
#[cfg(not(feature = "hooks"))]
pub fn inf_fp(_s: &InflateState, _h: &mut H128) {}

#[allow(dead_code)]
pub fn fmt_name(f: DataFormat) -> &'static str {
    match f {
        DataFormat::Zlib => "Zlib",
        DataFormat::ZLibIgnoreChecksum => "ZLibIgnoreChecksum",
        DataFormat::Raw => "Raw",
        _ => "?",
    }
}
#[allow(unused_imports)]
use MZError as _MZErrorUnused;
#[allow(unused_imports)]
use MZStatus as _MZStatusUnused;


/// The generic constant-schedule driver loop: offer `chunk` more input whenever the decoder
/// asked for input (or cannot write: region full / zero room), grant `budget` per call; stop at a
/// terminal status or when a call made no progress and nothing more can be offered.
pub fn drive(d: &mut DecDrv, data: &[u8], chunk: usize, budget: usize, on_step: &mut dyn FnMut(&DecDrv, &StepObs)) {
    // every call either makes progress (bounded by input + output length) or is one of a few
    // idle calls; the absolute cap only guards against a decoder that "progresses" forever
    let limit = 200_000_000u32;
    let mut want_input = true;
    let mut idle = 0u32;
    loop {
        let before_avail = d.avail_end;
        let add = if want_input { chunk } else { 0 };
        let o = d.step(data, add, budget);
        on_step(d, &o);
        if d.terminal() || d.calls > limit {
            break;
        }
        let progressed = o.consumed > 0 || o.written > 0 || d.avail_end > before_avail;
        idle = if progressed { 0 } else { idle + 1 };
        if idle > 8 {
            break;
        }
        want_input = o.status == TINFLStatus::NeedsMoreInput || (o.status == TINFLStatus::HasMoreOutput && o.written == 0);
        if !progressed && (d.avail_end == data.len()) && (budget == 0 || (d.mode == Mode::Flat && d.out_pos == d.buf.len())) {
            break;
        }
        if !progressed && d.avail_end == data.len() && !want_input {
            break;
        }
        if !progressed && want_input && d.avail_end == data.len() && o.status == TINFLStatus::HasMoreOutput {
            break;
        }
    }
}


/// Decode with the input revealed at the given cut points (ascending byte offsets), unlimited
/// budget; after each reveal the decoder is called until it asks for input again.
pub fn run_cuts(data: &[u8], mode: Mode, buf_len: usize, base_flags: u32, cuts: &[usize], more_forever: bool, fill: u8) -> DecResult {
    run_cuts_with(data, mode, buf_len, base_flags, cuts, more_forever, fill, |_| {})
}

/// `run_cuts` on a decoder object that `prep` may have used before (and re-initialised).
pub fn run_cuts_with(data: &[u8], mode: Mode, buf_len: usize, base_flags: u32, cuts: &[usize], more_forever: bool, fill: u8, prep: impl FnOnce(&mut DecompressorOxide)) -> DecResult {
    let mut d = DecDrv::new(mode, buf_len, base_flags, fill);
    prep(&mut d.r);
    d.more_forever = more_forever;
    let mut points: Vec<usize> = cuts.iter().cloned().filter(|&c| c < data.len()).collect();
    points.push(data.len());
    let mut prev = 0;
    'outer: for &c in &points {
        let mut add = c - prev;
        prev = c;
        let mut idle = 0;
        loop {
            let o = d.step(data, add, usize::MAX);
            add = 0;
            if d.terminal() {
                break 'outer;
            }
            if o.status == TINFLStatus::NeedsMoreInput {
                break;
            }
            // HasMoreOutput: ring wrapped or flat buffer full
            if o.consumed == 0 && o.written == 0 {
                idle += 1;
                if idle > 2 {
                    break;
                }
            }
        }
    }
    DecResult { status: d.last.unwrap(), out: d.out, consumed: d.in_pos, calls: d.calls }
}


/// Histories for "the same decoder object, used before": 0 = a complete stream of the other
/// framing, 1 = a stream abandoned in the middle of a dynamic block header/body with bits left in
/// the bit buffer, 2 = a stream that failed. The object is then re-initialised with `init()`.
pub const REUSE_KINDS: [&str; 3] = ["after-other-format", "after-abandoned", "after-failed"];

pub fn reuse_history_bytes(kind: usize, zlib_next: bool) -> (Vec<u8>, u32) {
    static CACHE: std::sync::OnceLock<Vec<(Vec<u8>, u32)>> = std::sync::OnceLock::new();
    let c = CACHE.get_or_init(|| {
        let mut v = vec![];
        for k in 0..3 {
            for z in [false, true] {
                v.push(reuse_history_bytes_uncached(k, z));
            }
        }
        v
    });
    c[kind.min(2) * 2 + zlib_next as usize].clone()
}

fn reuse_history_bytes_uncached(kind: usize, zlib_next: bool) -> (Vec<u8>, u32) {
    let text: Vec<u8> = b"previous stream, previous stream, previously streamed: 0123456789 abcdefghijklmnopqrstuvwxyz".iter().cycle().take(700).cloned().collect();
    match kind {
        0 => {
            if zlib_next { (miniz_oxide::deflate::compress_to_vec(&text, 6), 0) } else { (miniz_oxide::deflate::compress_to_vec_zlib(&text, 6), F_ZLIB) }
        }
        1 => {
            // same framing, cut inside the block (odd cut so that the bit buffer holds a partial byte)
            let c = if zlib_next { miniz_oxide::deflate::compress_to_vec_zlib(&text, 6) } else { miniz_oxide::deflate::compress_to_vec(&text, 6) };
            let cut = (c.len() * 2 / 3) | 1;
            (c[..cut.min(c.len() - 1)].to_vec(), if zlib_next { F_ZLIB } else { 0 } | F_MORE)
        }
        _ => (vec![0x07, 0x55, 0xaa, 0x55, 0xaa, 0x55, 0xaa, 0x00], 0),
    }
}

/// Two-step histories: a complete dynamic-block stream, `init()`, then a raw stream that is rejected
/// at its dynamic block header with the given HLIT / HDIST *fields* (30/31 are the out-of-range
/// values; the decoder may store what it read before validating it), `init()` again.
pub const DEEP_HISTORIES: [(u32, u32); 5] = [(30, 0), (31, 0), (0, 30), (0, 31), (31, 31)];

pub fn deep_history_streams(k: usize) -> (Vec<u8>, Vec<u8>) {
    static CACHE: std::sync::OnceLock<Vec<(Vec<u8>, Vec<u8>)>> = std::sync::OnceLock::new();
    let c = CACHE.get_or_init(|| {
        let text: Vec<u8> = b"previous stream, previous stream, previously streamed: 0123456789 abcdefghijklmnopqrstuvwxyz".iter().cycle().take(700).cloned().collect();
        let first = miniz_oxide::deflate::compress_to_vec(&text, 6);
        let t = crate::refmodel::ref_inflate(&first, &crate::refmodel::Opts::raw());
        assert!(t.blocks.iter().any(|b| b.btype == 2), "deep history: first stream has no dynamic block");
        let inv = crate::props::c04::targeted_invalid();
        DEEP_HISTORIES
            .iter()
            .map(|(hl, hd)| {
                let name = format!("hlit-field={},hdist-field={}", hl, hd);
                let bad = inv.iter().find(|(n, _, z)| *n == name && !*z).expect("deep history: header violation not in the C04 list").1.clone();
                (first.clone(), bad)
            })
            .collect()
    });
    c[k].clone()
}

pub fn apply_deep_history(d: &mut DecompressorOxide, k: usize) {
    let (a, b) = deep_history_streams(k);
    let mut scratch = vec![0u8; 4096];
    let _ = miniz_oxide::inflate::core::decompress(d, &a, &mut scratch, 0, F_FLAT);
    d.init();
    let _ = miniz_oxide::inflate::core::decompress(d, &b, &mut scratch, 0, F_FLAT);
    d.init();
}

/// The same two-step history on a streaming state (created Raw), ending with `reset(fmt)` or, when
/// `min` is set and the format stays Raw, `reset_as(MinReset)`.
pub fn deep_history_state(k: usize, fmt: miniz_oxide::DataFormat, min: bool) -> Box<miniz_oxide::inflate::stream::InflateState> {
    use miniz_oxide::inflate::stream::{inflate, InflateState, MinReset};
    let (a, b) = deep_history_streams(k);
    let mut st = InflateState::new_boxed(miniz_oxide::DataFormat::Raw);
    let mut scratch = vec![0u8; 4096];
    let _ = inflate(&mut st, &a, &mut scratch, miniz_oxide::MZFlush::None);
    st.reset(miniz_oxide::DataFormat::Raw);
    let _ = inflate(&mut st, &b, &mut scratch, miniz_oxide::MZFlush::None);
    if min && fmt == miniz_oxide::DataFormat::Raw {
        st.reset_as(MinReset);
    } else {
        st.reset(fmt);
    }
    st
}

pub fn apply_reuse_history(d: &mut DecompressorOxide, kind: usize, zlib_next: bool) {
    let (bytes, flags) = reuse_history_bytes(kind, zlib_next);
    let mut scratch = vec![0u8; 4096];
    let _ = miniz_oxide::inflate::core::decompress(d, &bytes, &mut scratch, 0, flags | F_FLAT);
    d.init();
}
