//! mzo-mc: bounded-exhaustive explorer for miniz_oxide properties C01..C19.
//! Usage: mc <ID> <quick|thorough>   |   mc <ID> --replay <file>   |   mc selftest
mod evidence;
mod gen;
mod refmodel;
mod util;
mod watchdog;
mod zlibffi;
mod corpus;
mod drv;
mod streams;
mod explore;
mod capi;
mod props;

use std::cell::RefCell;

thread_local! { pub static LAST_PANIC: RefCell<String> = const { RefCell::new(String::new()) }; }
thread_local! { pub static GUARD_DEPTH: std::cell::Cell<u32> = const { std::cell::Cell::new(0) }; }
pub static RUNNING_PROP: std::sync::OnceLock<String> = std::sync::OnceLock::new();

/// Run `f` catching panics; Err carries the panic message and location.
pub fn guarded<R>(f: impl FnOnce() -> R) -> Result<R, String> {
    GUARD_DEPTH.with(|d| d.set(d.get() + 1));
    let r = std::panic::catch_unwind(std::panic::AssertUnwindSafe(f));
    GUARD_DEPTH.with(|d| d.set(d.get() - 1));
    match r {
        Ok(r) => Ok(r),
        Err(_) => Err(LAST_PANIC.with(|p| p.borrow().clone())),
    }
}

fn main() {
    std::panic::set_hook(Box::new(|info| {
        let msg = if let Some(s) = info.payload().downcast_ref::<&str>() {
            s.to_string()
        } else if let Some(s) = info.payload().downcast_ref::<String>() {
            s.clone()
        } else {
            "panic".to_string()
        };
        let loc = info.location().map(|l| format!("{}:{}", l.file(), l.line())).unwrap_or_default();
        if GUARD_DEPTH.with(|d| d.get()) == 0 {
            let in_sut = !loc.contains("/mc/src/") && (loc.contains("miniz_oxide/src/") || ["src/lib_oxide.rs", "src/tdef.rs", "src/tinfl.rs", "src/c_export.rs", "src/lib.rs"].iter().any(|f| loc.contains(f)));
            if let (true, Some(prop)) = (in_sut, RUNNING_PROP.get()) {
                // safety net: the code under test panicked in a call the harness had not wrapped.
                // That is a crash of the library on an input of this property's space, not a
                // machinery failure: report it as such (the work item ids locate the case).
                let (a, b) = watchdog::current_ids();
                let path = evidence::write_replay(prop, &serde_json::json!({"property": prop, "kind": "unguarded-panic", "message": msg, "location": loc, "work_item": a, "sub": b,
                    "note": "panic inside the library during this check; re-run ./check <ID> quick to reproduce (deterministic)"}));
                println!("VIOLATION property={} replay={} site={}/panic/unguarded :: the library panicked: {} @ {} (work item {}/{})", prop, path, prop, msg, loc, a, b);
                evidence::emergency_evidence(prop, "library panic outside a guarded call");
                std::process::exit(1);
            }
            // a panic of the machinery itself, not of the code under test
            eprintln!("MACHINERY panic in harness: {} @ {}", msg, loc);
        }
        LAST_PANIC.with(|p| *p.borrow_mut() = format!("{} @ {}", msg, loc));
    }));
    let args: Vec<String> = std::env::args().collect();
    if args.len() < 2 {
        eprintln!("usage: mc <ID> <quick|thorough> | mc <ID> --replay <file> | mc selftest");
        std::process::exit(2);
    }
    let id = args[1].clone();
    if id == "selftest" {
        std::process::exit(props::selftest::run());
    }
    if args.len() >= 4 && args[2] == "--misuse" {
        std::process::exit(props::c17::misuse_child(&args[3]));
    }
    if args.len() >= 4 && args[2] == "--replay" {
        std::process::exit(props::replay(&id, &args[3]));
    }
    let tier = std::env::var("VERIF_TIER").ok().filter(|t| t == "quick" || t == "thorough").unwrap_or_else(|| {
        args.get(2).cloned().unwrap_or_else(|| "quick".to_string())
    });
    let tier = if args.get(2).map(|s| s == "quick" || s == "thorough").unwrap_or(false) { args[2].clone() } else { tier };
    watchdog::start(&id);
    let _ = RUNNING_PROP.set(id.clone());
    let code = props::run(&id, &tier);
    std::process::exit(code);
}
