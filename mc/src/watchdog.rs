//! Hang detection: every worker publishes (case ids, tick) in a slot; a watchdog thread turns
//! a case that does not finish within the wall bound into a violation of the running property
//! (the looping thread cannot be interrupted, so the process exits after writing the replay).
use std::cell::Cell;
use std::sync::atomic::{AtomicBool, AtomicU64, Ordering};
use std::sync::Mutex;
use std::time::{Duration, Instant};

const MAX_WORKERS: usize = 256;

struct Slot {
    active: AtomicBool,
    tick: AtomicU64,
    a: AtomicU64,
    b: AtomicU64,
}

#[allow(clippy::declare_interior_mutable_const)]
const SLOT0: Slot = Slot {
    active: AtomicBool::new(false),
    tick: AtomicU64::new(0),
    a: AtomicU64::new(0),
    b: AtomicU64::new(0),
};
static SLOTS: [Slot; MAX_WORKERS] = [SLOT0; MAX_WORKERS];
static PROP: Mutex<String> = Mutex::new(String::new());
static LIMIT_MS: AtomicU64 = AtomicU64::new(20_000);

thread_local! { static WID: Cell<usize> = const { Cell::new(MAX_WORKERS - 1) }; }

pub fn register_worker(t: usize) {
    WID.with(|w| w.set(t.min(MAX_WORKERS - 2)));
}

/// Mark the start of a case (cheap: three relaxed stores).
#[inline]
pub fn tick(a: u64, b: u64) {
    let t = WID.with(|w| w.get());
    let s = &SLOTS[t];
    s.a.store(a, Ordering::Relaxed);
    s.b.store(b, Ordering::Relaxed);
    s.tick.fetch_add(1, Ordering::Relaxed);
    s.active.store(true, Ordering::Relaxed);
}

/// Mark progress inside a long work item (one real call returned).
#[inline]
pub fn pulse() {
    let t = WID.with(|w| w.get());
    SLOTS[t].tick.fetch_add(1, Ordering::Relaxed);
}

/// Ids of the case the calling thread is running (used by the fault handler).
pub fn current_ids() -> (u64, u64) {
    let t = WID.with(|w| w.get());
    (SLOTS[t].a.load(Ordering::Relaxed), SLOTS[t].b.load(Ordering::Relaxed))
}

pub fn clear(t: usize) {
    SLOTS[t.min(MAX_WORKERS - 1)].active.store(false, Ordering::Relaxed);
}

pub fn idle() {
    let t = WID.with(|w| w.get());
    SLOTS[t].active.store(false, Ordering::Relaxed);
}

pub fn set_limit_ms(ms: u64) {
    LIMIT_MS.store(ms, Ordering::Relaxed);
}

pub fn start(prop: &str) {
    *PROP.lock().unwrap() = prop.to_string();
    std::thread::Builder::new()
        .name("watchdog".into())
        .spawn(move || {
            let mut last: Vec<(u64, Instant)> = (0..MAX_WORKERS).map(|_| (0, Instant::now())).collect();
            loop {
                std::thread::sleep(Duration::from_millis(250));
                let lim = Duration::from_millis(LIMIT_MS.load(Ordering::Relaxed));
                for (i, s) in SLOTS.iter().enumerate() {
                    if !s.active.load(Ordering::Relaxed) {
                        last[i] = (s.tick.load(Ordering::Relaxed), Instant::now());
                        continue;
                    }
                    let t = s.tick.load(Ordering::Relaxed);
                    if t != last[i].0 {
                        last[i] = (t, Instant::now());
                    } else if last[i].1.elapsed() > lim {
                        let prop = PROP.lock().unwrap().clone();
                        let a = s.a.load(Ordering::Relaxed);
                        let b = s.b.load(Ordering::Relaxed);
                        let path = crate::evidence::write_replay(
                            &prop,
                            &serde_json::json!({"property": prop, "kind": "hang", "work_item": a, "sub": b,
                                "note": "a single case did not return within the wall bound; rerun the work item alone to reproduce"}),
                        );
                        println!("VIOLATION property={} replay={} kind=hang work_item={} sub={}", prop, path, a, b);
                        crate::evidence::emergency_evidence(&prop, "hang");
                        std::process::exit(1);
                    }
                }
            }
        })
        .unwrap();
}
