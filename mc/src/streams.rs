//! The stream grammar G(B, T) of DESIGN 4.3: valid DEFLATE/zlib streams nobody's compressor
//! emits. Every stream carries its plaintext and exact encoded length by construction.
use crate::gen::*;
use crate::refmodel::{Token, DIST_BASE_T, DIST_XBITS};
use crate::util::Lcg;

fn lit(b: u8) -> Token {
    Token::Lit(b)
}
fn m(len: u16, dist: u16) -> Token {
    Token::Match { len, dist }
}

/// 60 boundary distances: base and base+max-extra of each of the 30 distance codes.
pub fn boundary_dists() -> Vec<u16> {
    let mut v = vec![];
    for i in 0..30 {
        let base = DIST_BASE_T[i] as u32;
        let hi = base + (1u32 << DIST_XBITS[i]) - 1;
        v.push(base as u16);
        if hi != base {
            v.push(hi.min(32768) as u16); // 32768 stored as 32768u16 (fits)
        }
    }
    // neighbourhoods of every power of two (ring lengths, window sizes): P-2 ..= P+1
    for k in 0..=15u32 {
        let p = 1i64 << k;
        for d in [p - 2, p - 1, p, p + 1] {
            if (1..=32768).contains(&d) {
                v.push(d as u16);
            }
        }
    }
    v.sort();
    v.dedup();
    v
}

fn history(n: usize, salt: u64) -> Vec<u8> {
    let mut l = Lcg(0xfeed_beef ^ salt);
    (0..n).map(|_| l.byte()).collect()
}

fn push_history(b: &mut StreamBuilder, h: &[u8]) {
    for c in h.chunks(65535) {
        b.stored(c, false);
    }
}

#[derive(Clone, Copy, PartialEq, Eq, Debug)]
pub enum Coding {
    Fixed,
    Dyn(CodeShape, CodeShape),
}

fn emit_block(b: &mut StreamBuilder, toks: &[Token], coding: Coding, bfinal: bool) -> bool {
    match coding {
        Coding::Fixed => {
            b.fixed(toks, bfinal);
            true
        }
        Coding::Dyn(l, d) => match dyn_spec_for(toks, l, d) {
            Some(spec) => {
                b.dynamic(&spec, toks, bfinal);
                true
            }
            None => false,
        },
    }
}

/// Every length 3..=258 x the 60 boundary distances (one stream per distance), and — when
/// `all_dists` — every distance 1..=32768 x lengths {3,4,258} (one stream per length).
pub fn length_distance_sweeps(zlib: Option<(u8, u8)>, all_dists: bool, codings: &[Coding], salt: u64) -> Vec<GenStream> {
    let mut out = vec![];
    let h = history(32768, salt);
    for &coding in codings {
        for &d in &boundary_dists() {
            let toks: Vec<Token> = (3..=258u16).map(|l| m(l, d)).collect();
            let mut b = StreamBuilder::new(zlib);
            push_history(&mut b, &h);
            if emit_block(&mut b, &toks, coding, true) {
                out.push(b.finish());
            }
        }
        if all_dists {
            for len in [3u16, 4, 258] {
                let toks: Vec<Token> = (1..=32768u32).map(|d| m(len, d as u16)).collect();
                let mut b = StreamBuilder::new(zlib);
                push_history(&mut b, &h);
                if emit_block(&mut b, &toks, coding, true) {
                    out.push(b.finish());
                }
            }
        } else {
            // reduced: every distance 1..=32768 with step pattern hitting all codes' interiors
            let toks: Vec<Token> = (1..=32768u32).step_by(97).map(|d| m(3 + (d % 5) as u16, d as u16)).collect();
            let mut b = StreamBuilder::new(zlib);
            push_history(&mut b, &h);
            if emit_block(&mut b, &toks, coding, true) {
                out.push(b.finish());
            }
        }
    }
    // overlapping copies: dist in {1,2,3} x all lengths
    for d in 1..=3u16 {
        let mut toks = vec![lit(0x61), lit(0x62), lit(0x63)];
        toks.extend((3..=258u16).map(|l| m(l, d)));
        let mut b = StreamBuilder::new(zlib);
        b.fixed(&toks, true);
        out.push(b.finish());
    }
    out
}

/// Chain-code sweeps: every maximum code length 2..=15 in the litlen and distance alphabets,
/// used symbols deepest / shallowest.
pub fn chain_code_sweeps(zlib: Option<(u8, u8)>) -> Vec<GenStream> {
    let mut out = vec![];
    let toksets: Vec<Vec<Token>> = vec![
        vec![lit(0x61), lit(0x62), m(5, 2), lit(0xff), m(258, 1), m(3, 5)],
        vec![lit(0), m(3, 1)],
        vec![],
        vec![lit(1), lit(2), lit(3), lit(4), lit(5), lit(6), lit(7), lit(8), m(4, 8), m(9, 3), m(20, 7), m(35, 17)],
    ];
    for toks in &toksets {
        for l in 2..=15u8 {
            for (ls, ds) in [
                (CodeShape::ChainDeep(l), CodeShape::Flat),
                (CodeShape::ChainShallow(l), CodeShape::Flat),
                (CodeShape::Flat, CodeShape::ChainDeep(l)),
                (CodeShape::Flat, CodeShape::ChainShallow(l)),
                (CodeShape::ChainDeep(l), CodeShape::ChainDeep(l)),
            ] {
                if let Some(spec) = dyn_spec_for(toks, ls, ds) {
                    let mut b = StreamBuilder::new(zlib);
                    b.dynamic(&spec, toks, true);
                    out.push(b.finish());
                    // non-final + following block, so table re-initialisation happens after deep codes
                    let mut b = StreamBuilder::new(zlib);
                    b.dynamic(&spec, toks, false);
                    b.fixed(&[lit(0x7a)], true);
                    out.push(b.finish());
                }
            }
        }
        for (ls, ds) in [(CodeShape::Full, CodeShape::Full), (CodeShape::Full, CodeShape::Flat), (CodeShape::Flat, CodeShape::Full)] {
            if let Some(spec) = dyn_spec_for(toks, ls, ds) {
                let mut b = StreamBuilder::new(zlib);
                b.dynamic(&spec, toks, true);
                out.push(b.finish());
            }
        }
    }
    out
}

/// Alternative code-length-alphabet encodings of the same tables (deviations from greedy):
/// literal-only, split repeats, 17-only zero runs, runs crossing the litlen/distance boundary,
/// every repeat count of 16/17/18, HCLEN padding, chain codes for the code-length alphabet.
pub fn clen_encoding_variants(zlib: Option<(u8, u8)>) -> Vec<GenStream> {
    let mut out = vec![];
    let toks = vec![lit(0x41), lit(0x42), m(4, 2), m(3, 1)];
    // table A: boundary-crossing runs. litlen: symbols 0x41,0x42 (len 2), 256 (len 2), 258/257 (len 3) ...
    let mut specs: Vec<DynSpec> = vec![];
    // (1) litlen table ending in a run of 8s that continues into the distance table
    {
        let mut ll = vec![0u8; 286];
        // 256 symbols of length 8 covering literals 0..=143 + ... build a complete code: 286 symbols balanced
        let lens = balanced_lengths(286);
        ll.copy_from_slice(&lens);
        // balanced(286): 226 x 8, 60 x 9 ; the tail (symbols 226..285) has length 9
        let dl = balanced_lengths(30); // 2 x 4, 28 x 5
        specs.push(DynSpec::new(ll.clone(), dl.clone()));
        // distance table of all 9s is over-subscribed; instead make litlen tail and dist head equal:
        // dist = 16 symbols of length 4 -> complete; litlen tail forced to 4s is not possible in a
        // complete 286 code, so use a zero run across the boundary instead (below).
    }
    // (2) zero run crossing the boundary: litlen 257..=260 used then zeros to 285, distance starts with zeros
    {
        let mut ll = vec![0u8; 286];
        for (s, l) in [(0x41usize, 2u8), (0x42, 2), (256, 2), (258, 3), (257, 3)] {
            ll[s] = l;
        }
        let mut dl = vec![0u8; 30];
        dl[0] = 1;
        dl[1] = 1; // dist 1 and 2
        let all: Vec<u8> = ll.iter().chain(dl.iter()).cloned().collect();
        specs.push(DynSpec::new(ll.clone(), dl.clone()));
        // literal-only encoding of the same
        specs.push(DynSpec::with_ops(ll.clone(), dl.clone(), clops_literal(&all)));
        // hand-made: zero run that spans litlen tail (259..=285 = 27 zeros) and distance head
        let mut dl2 = vec![0u8; 30];
        dl2[5] = 1;
        dl2[1] = 1;
        let all2: Vec<u8> = ll.iter().chain(dl2.iter()).cloned().collect();
        let g = clops_greedy(&all2);
        specs.push(DynSpec::with_ops(ll.clone(), dl2.clone(), g));
        // every 18-count 11..=138 and 17-count 3..=10 : vary the number of leading zeros of a table
        for z in (3..=138usize).step_by(1) {
            // litlen: z leading zeros then two literals (z.., z+1), needs 256: keep z <= 138 < 256
            let mut ll = vec![0u8; 257];
            ll[z] = 1;
            ll[256] = 1;
            let dl = vec![0u8; 1];
            let all: Vec<u8> = ll.iter().chain(dl.iter()).cloned().collect();
            let mut ops = vec![];
            if z >= 11 {
                ops.push(ClOp::Z18(z as u8));
            } else {
                ops.push(ClOp::Z17(z as u8));
            }
            ops.extend(clops_greedy(&all[z..]));
            let spec = DynSpec::with_ops(ll, dl, ops);
            let t = vec![lit(z as u8)];
            let mut b = StreamBuilder::new(zlib);
            b.dynamic(&spec, &t, true);
            out.push(b.finish());
        }
        // every 16-count 3..=6 directly after position 0's literal, and after a boundary
        for c in 3..=6usize {
            let mut ll = vec![0u8; 257];
            // symbols 0..=c have the same length; make a complete code: (c+1) symbols + 256
            let n = c + 2;
            let lens = balanced_lengths(n);
            // need first c+1 equal: use lengths all equal when n is a power of two, else choose 8 symbols of len 3
            let _ = lens;
            for s in 0..8 {
                ll[s] = 3;
            }
            ll[7] = 0;
            ll[256] = 3; // 7 literals + EOB at length 3 = complete
            let dl = vec![0u8; 1];
            let mut ops = vec![ClOp::Len(3), ClOp::Rep(c as u8)];
            let rest: Vec<u8> = ll[1 + c..].iter().chain(dl.iter()).cloned().collect();
            // remaining 3s after the repeat as literals
            ops.extend(clops_literal(&rest[..(7 - 1 - c)]));
            ops.extend(clops_greedy(&rest[(7 - 1 - c)..]));
            let spec = DynSpec::with_ops(ll, dl, ops);
            let t = vec![lit(0), lit(6), lit(3)];
            let mut b = StreamBuilder::new(zlib);
            b.dynamic(&spec, &t, true);
            out.push(b.finish());
        }
        // repeat (16) crossing the litlen/distance boundary: HLIT=258 with ll[256]=ll[257]=1
        // (complete) and dl=[1,1]; Len(1) for ll[256], then Rep(3) covers ll[257], dl[0], dl[1]
        {
            let mut ll = vec![0u8; 258];
            ll[256] = 1;
            ll[257] = 1;
            let dl = vec![1u8, 1];
            let mut ops = clops_greedy(&ll[..256]);
            ops.push(ClOp::Len(1));
            ops.push(ClOp::Rep(3));
            let spec = DynSpec::with_ops(ll, dl, ops);
            let t = vec![m(3, 1), m(3, 2)];
            let mut b = StreamBuilder::new(zlib);
            b.stored(b"ab", false);
            b.dynamic(&spec, &t, true);
            out.push(b.finish());
        }
    }
    for spec in &specs {
        // which tokens are encodable depends on the table: use only literals 0x41,0x42 and matches when available
        let can_match = spec.ll.len() > 258 && spec.ll[258] != 0 && spec.ll[257] != 0 && spec.dl.len() > 1 && spec.dl[0] != 0 && spec.dl[1] != 0;
        let t: Vec<Token> = if can_match { toks.clone() } else { vec![lit(0x41), lit(0x42)] };
        let mut b = StreamBuilder::new(zlib);
        b.dynamic(spec, &t, true);
        out.push(b.finish());
        // HCLEN padded to 19 with trailing zero lengths kept
        let mut s2 = spec.clone();
        s2.hclen = 19;
        let mut b = StreamBuilder::new(zlib);
        b.dynamic(&s2, &t, true);
        out.push(b.finish());
        // chain codes for the code-length alphabet itself (up to 7 bits)
        for l in 2..=7u8 {
            if let Some(cl) = cl_code_chain(&spec.ops, l) {
                let mut s3 = spec.clone();
                s3.cl = cl;
                s3.hclen = min_hclen(&cl);
                let mut b = StreamBuilder::new(zlib);
                b.dynamic(&s3, &t, true);
                out.push(b.finish());
            }
        }
    }
    out
}

#[derive(Clone, Copy, Debug, PartialEq, Eq)]
pub enum BK {
    StoredEmpty,
    Stored1,
    Stored5,
    FixedEmpty,
    FixedToks(usize),
    DynToks(usize),
    DynDeep(usize),
}

pub const BLOCK_KINDS: &[BK] = &[
    BK::StoredEmpty,
    BK::Stored5,
    BK::FixedEmpty,
    BK::FixedToks(1),
    BK::FixedToks(5),
    BK::DynToks(1),
    BK::DynToks(7),
    BK::DynDeep(3),
];

fn add_block(b: &mut StreamBuilder, k: BK, bfinal: bool) {
    let menu = crate::corpus::token_menu();
    // matches in later blocks may refer to earlier output; only use self-contained token lists
    match k {
        BK::StoredEmpty => {
            b.stored(b"", bfinal);
        }
        BK::Stored1 => {
            b.stored(b"x", bfinal);
        }
        BK::Stored5 => {
            b.stored(b"hello", bfinal);
        }
        BK::FixedEmpty => {
            b.fixed(&[], bfinal);
        }
        BK::FixedToks(i) => {
            b.fixed(&menu[i % menu.len()].1, bfinal);
        }
        BK::DynToks(i) => {
            let t = &menu[i % menu.len()].1;
            let spec = dyn_spec_for(t, CodeShape::Flat, CodeShape::Flat).unwrap();
            b.dynamic(&spec, t, bfinal);
        }
        BK::DynDeep(i) => {
            let t = &menu[i % menu.len()].1;
            let spec = dyn_spec_for(t, CodeShape::ChainDeep(13), CodeShape::ChainDeep(11))
                .or_else(|| dyn_spec_for(t, CodeShape::ChainDeep(15), CodeShape::Flat))
                .unwrap();
            b.dynamic(&spec, t, bfinal);
        }
    }
}

/// All block-kind sequences of length 1..=maxb, optionally preceded by alignment filler so the
/// first block starts at each bit offset.
pub fn block_sequences(zlib: Option<(u8, u8)>, maxb: usize, aligns: &[usize], kinds: &[BK]) -> Vec<GenStream> {
    let mut out = vec![];
    let mut idx = vec![0usize; 1];
    loop {
        for &a in aligns {
            let mut b = StreamBuilder::new(zlib);
            if a != 0 {
                align_filler(&mut b, a);
            }
            for (i, &k) in idx.iter().enumerate() {
                add_block(&mut b, kinds[k], i + 1 == idx.len());
            }
            out.push(b.finish());
        }
        // next sequence
        let mut p = idx.len();
        loop {
            if p == 0 {
                idx = vec![0; idx.len() + 1];
                break;
            }
            p -= 1;
            idx[p] += 1;
            if idx[p] < kinds.len() {
                break;
            }
            idx[p] = 0;
        }
        if idx.len() > maxb {
            break;
        }
    }
    out
}

/// All token sequences of length <= t over a reduced menu, in fixed and dynamic coding.
pub fn token_sequences(zlib: Option<(u8, u8)>, t: usize) -> Vec<GenStream> {
    let menu: Vec<Token> = vec![lit(0x00), lit(0x61), lit(0x8f), lit(0xff), m(3, 1), m(4, 2), m(258, 1), m(5, 3)];
    let mut out = vec![];
    let mut seqs: Vec<Vec<Token>> = vec![vec![]];
    let mut start = 0;
    for _ in 0..t {
        let end = seqs.len();
        for i in start..end {
            for tk in &menu {
                let mut s = seqs[i].clone();
                // validity: distance must not exceed produced length
                let plen: usize = s.iter().map(|x| match x { Token::Lit(_) => 1, Token::Match { len, .. } => *len as usize }).sum();
                if let Token::Match { dist, .. } = tk {
                    if *dist as usize > plen {
                        continue;
                    }
                }
                s.push(*tk);
                seqs.push(s);
            }
        }
        start = end;
    }
    for s in &seqs {
        let mut b = StreamBuilder::new(zlib);
        b.fixed(s, true);
        out.push(b.finish());
        if let Some(spec) = dyn_spec_for(s, CodeShape::Flat, CodeShape::Flat) {
            let mut b = StreamBuilder::new(zlib);
            b.dynamic(&spec, s, true);
            out.push(b.finish());
        }
    }
    out
}

/// Stored-block edge cases: 65535-byte block, blocks after bytes were pulled into the bit
/// buffer (every alignment), large history providers.
pub fn stored_edges(zlib: Option<(u8, u8)>) -> Vec<GenStream> {
    let mut out = vec![];
    let big = history(65535, 3);
    let mut b = StreamBuilder::new(zlib);
    b.stored(&big, true);
    out.push(b.finish());
    for a in 0..8 {
        for n in [0usize, 1, 2, 3, 4, 5, 9, 300] {
            let mut b = StreamBuilder::new(zlib);
            b.fixed(&[lit(0x31), lit(0x32)], false);
            align_filler(&mut b, a);
            b.stored(&big[..n], false);
            b.fixed(&[lit(0x33)], true);
            out.push(b.finish());
        }
    }
    // a stream whose output exceeds 32 KiB several times (ring wraps), with far matches across wraps
    let h = history(40000, 9);
    let mut b = StreamBuilder::new(zlib);
    push_history(&mut b, &h);
    let toks: Vec<Token> = (0..400u32).map(|i| m(3 + (i * 7 % 256) as u16, (32768 - (i * 13 % 3000)) as u16)).collect();
    b.fixed(&toks, false);
    b.stored(&h[..1000], false);
    let toks2: Vec<Token> = (0..200u32).map(|i| m(258, (1 + i * 163 % 32768) as u16)).collect();
    b.fixed(&toks2, true);
    out.push(b.finish());
    out
}

/// A Huffman block coded with 1- and 2-bit codes (so many whole bytes of the following block are
/// already in the decoder's bit buffer) directly followed by tiny stored blocks; final or not.
pub fn short_code_then_stored(zlib: Option<(u8, u8)>) -> Vec<GenStream> {
    let mut out = vec![];
    for codes in 0..2 {
        // codes 0: 'a' and EOB with 1-bit codes; codes 1: 'a' 1 bit, 'b' and EOB 2 bits
        let mut ll = vec![0u8; 257];
        if codes == 0 {
            ll[b'a' as usize] = 1;
            ll[256] = 1;
        } else {
            ll[b'a' as usize] = 1;
            ll[b'b' as usize] = 2;
            ll[256] = 2;
        }
        let spec = DynSpec::new(ll, vec![0]);
        for nlit in 0..=17usize {
            for slen in 0..=5usize {
                for tail in 0..2 {
                    let toks: Vec<Token> = (0..nlit).map(|i| if codes == 1 && i % 3 == 2 { lit(b'b') } else { lit(b'a') }).collect();
                    let data: Vec<u8> = (0..slen).map(|i| 0x30 + i as u8).collect();
                    let mut b = StreamBuilder::new(zlib);
                    b.dynamic(&spec, &toks, false);
                    if tail == 0 {
                        b.stored(&data, true);
                    } else {
                        b.stored(&data, false);
                        b.dynamic(&spec, &toks[..nlit.min(2)], true);
                    }
                    out.push(b.finish());
                }
            }
        }
    }
    out
}

/// Consecutive dynamic blocks whose codes have *many* long (13-15 bit) codewords hanging under a
/// few short prefixes, in different symbol-to-length assignments from block to block: the
/// decoder's overflow tree for codes longer than its fast table is then large (2 entries per inner
/// node) and must be rebuilt from scratch for every block. Distance alphabet: lengths
/// {1..10, 13x2, 14x6, 15x12}; literal/length alphabet: {1..6, 13x60, 14x52, 15x168}.
pub fn bushy_deep_streams(zlib: Option<(u8, u8)>) -> Vec<GenStream> {
    let mut out = vec![];
    let dbase: Vec<u8> = (1..=10u8).chain([13, 13]).chain(std::iter::repeat(14).take(6)).chain(std::iter::repeat(15).take(12)).collect();
    let lbase: Vec<u8> = (1..=6u8).chain(std::iter::repeat(13).take(60)).chain(std::iter::repeat(14).take(52)).chain(std::iter::repeat(15).take(168)).collect();
    let perm = |base: &[u8], k: usize| -> Vec<u8> {
        let n = base.len();
        match k {
            0 => base.to_vec(),
            1 => base.iter().rev().cloned().collect(),
            _ => (0..n).map(|i| base[(i * 7 + 3) % n]).collect(),
        }
    };
    let h = history(32768, 77);
    // every distance symbol used by a match (base distance and base + max extra)
    let mut dtoks: Vec<Token> = vec![];
    for sidx in 0..30usize {
        let base = DIST_BASE_T[sidx] as u32;
        let hi = (base + (1u32 << DIST_XBITS[sidx]) - 1).min(32768);
        dtoks.push(m(3 + sidx as u16, base as u16));
        dtoks.push(m(131 + sidx as u16, hi as u16));
        dtoks.push(lit(0x41 + sidx as u8));
    }
    // every literal once, plus a few matches
    let mut ltoks: Vec<Token> = (0..=255u16).map(|b| lit(b as u8)).collect();
    for (i, l) in [3u16, 4, 10, 11, 18, 19, 34, 35, 66, 67, 130, 131, 257, 258].iter().enumerate() {
        ltoks.push(m(*l, 1 + i as u16));
    }
    let dspec = |k: usize| -> DynSpec {
        let s0 = dyn_spec_for(&dtoks, CodeShape::Flat, CodeShape::Flat).unwrap();
        DynSpec::new(s0.ll, perm(&dbase, k))
    };
    let lspec = |k: usize| -> DynSpec {
        let s0 = dyn_spec_for(&ltoks, CodeShape::Flat, CodeShape::Flat).unwrap();
        DynSpec::new(perm(&lbase, k), s0.dl)
    };
    for seq in [vec![0usize, 1], vec![1, 0], vec![0, 2], vec![0, 0], vec![0, 1, 0], vec![2, 1, 2]] {
        for kind in 0..2 {
            let mut b = StreamBuilder::new(zlib);
            if kind == 0 {
                push_history(&mut b, &h);
            }
            for (i, &k) in seq.iter().enumerate() {
                let last = i + 1 == seq.len();
                if kind == 0 {
                    b.dynamic(&dspec(k), &dtoks, last);
                } else {
                    b.dynamic(&lspec(k), &ltoks, last);
                }
            }
            out.push(b.finish());
        }
    }
    out
}

/// The `short_code_then_stored` shape placed so that the stored block begins exactly at, or 1-2
/// bytes before, the end of the first 32 KiB of plaintext (the window of the streaming wrapper is
/// full at the moment the bytes that were read ahead into the bit buffer are stored).
pub fn short_code_then_stored_at_window_end(zlib: Option<(u8, u8)>) -> Vec<GenStream> {
    let mut out = vec![];
    let mut ll = vec![0u8; 257];
    ll[b'a' as usize] = 1;
    ll[b'b' as usize] = 2;
    ll[256] = 2;
    let spec = DynSpec::new(ll, vec![0]);
    let h = history(32768, 5);
    for nlit in [0usize, 3, 7, 12, 17] {
        for before in 0..=3usize {
            for slen in [1usize, 4, 9] {
                let toks: Vec<Token> = (0..nlit).map(|i| if i % 3 == 2 { lit(b'b') } else { lit(b'a') }).collect();
                let data: Vec<u8> = (0..slen).map(|i| 0x30 + i as u8).collect();
                let mut b = StreamBuilder::new(zlib);
                push_history(&mut b, &h[..32768 - nlit - before]);
                b.dynamic(&spec, &toks, false);
                b.stored(&data, false);
                b.dynamic(&spec, &toks[..nlit.min(2)], true);
                out.push(b.finish());
            }
        }
    }
    out
}

/// A fixed-Huffman block of n8 eight-bit and n9 nine-bit literals (every bit alignment and, in the
/// fast decode loop, every fill level of the bit buffer at the end-of-block code), directly followed
/// by a stored block of 1-3 bytes whose header *and payload* may already sit in the bit buffer;
/// that block is either the last one, or followed by a final fixed block long enough (18 bytes) to
/// keep the fast loop enabled while the first block ends.
pub fn literal_run_then_tiny_stored(zlib: Option<(u8, u8)>, thorough: bool) -> Vec<GenStream> {
    let mut out = vec![];
    let lim = if thorough { 24usize } else { 16 };
    for n8 in 0..lim {
        for n9 in 0..lim {
            for slen in 1..=3usize {
                for tail in 0..2 {
                    let mut toks: Vec<Token> = vec![];
                    for i in 0..n8.max(n9) {
                        if i < n8 {
                            toks.push(lit(0x41 + (i % 26) as u8));
                        }
                        if i < n9 {
                            toks.push(lit(0x90 + (i % 100) as u8));
                        }
                    }
                    let data: Vec<u8> = (0..slen).map(|i| 0x30 + i as u8).collect();
                    let mut b = StreamBuilder::new(zlib);
                    b.fixed(&toks, false);
                    if tail == 0 {
                        b.stored(&data, true);
                    } else {
                        b.stored(&data, false);
                        let fin: Vec<Token> = (0..16).map(|i| lit(0xa0 + i as u8)).collect();
                        b.fixed(&fin, true);
                    }
                    out.push(b.finish());
                }
            }
        }
    }
    out
}

/// All valid zlib wrappers around one body.
pub fn zlib_wrappers() -> Vec<GenStream> {
    let mut out = vec![];
    for cinfo in 0..=7u8 {
        for fl in 0..=3u8 {
            let mut b = StreamBuilder::new(Some((cinfo, fl)));
            b.fixed(&[lit(0x61), lit(0x62), m(6, 2)], true);
            out.push(b.finish());
        }
    }
    out
}

/// Streams whose final block ends at each bit offset 0..7 of its last byte, for each final
/// block kind (C06).
pub fn final_block_variants(zlib: Option<(u8, u8)>) -> Vec<GenStream> {
    let mut out = vec![];
    for kind in [BK::StoredEmpty, BK::Stored5, BK::FixedEmpty, BK::FixedToks(3), BK::DynToks(5), BK::DynDeep(3)] {
        for pre in 0..8usize {
            let mut b = StreamBuilder::new(zlib);
            if pre != 0 {
                align_filler(&mut b, pre);
            }
            add_block(&mut b, kind, true);
            out.push(b.finish());
        }
    }
    out
}

/// The standard valid set for a tier.
pub fn grammar(zlib: Option<(u8, u8)>, thorough: bool) -> Vec<GenStream> {
    let mut v = vec![];
    let codings: Vec<Coding> = if thorough {
        vec![
            Coding::Fixed,
            Coding::Dyn(CodeShape::Flat, CodeShape::Flat),
            Coding::Dyn(CodeShape::Full, CodeShape::Full),
            Coding::Dyn(CodeShape::Flat, CodeShape::ChainDeep(15)),
        ]
    } else {
        // (long distance codes in the sweeps too: a 15-bit distance code + 13 extra bits after a
        // length with 5 extra bits is the longest bit run a single match can need)
        vec![Coding::Fixed, Coding::Dyn(CodeShape::Full, CodeShape::Full), Coding::Dyn(CodeShape::Flat, CodeShape::ChainDeep(15))]
    };
    v.extend(length_distance_sweeps(zlib, thorough, &codings, crate::util::seed()));
    v.extend(chain_code_sweeps(zlib));
    v.extend(clen_encoding_variants(zlib));
    v.extend(block_sequences(zlib, if thorough { 3 } else { 2 }, &[0, 1, 2, 3, 4, 5, 6, 7], BLOCK_KINDS));
    v.extend(token_sequences(zlib, if thorough { 4 } else { 3 }));
    v.extend(stored_edges(zlib));
    v.extend(final_block_variants(zlib));
    v.extend(short_code_then_stored(zlib));
    v.extend(bushy_deep_streams(zlib));
    v.extend(short_code_then_stored_at_window_end(zlib).into_iter().step_by(if thorough { 1 } else { 2 }));
    v.extend(literal_run_then_tiny_stored(zlib, thorough));
    v
}
