//! Generic depth-first explorer over the real objects: fork = Clone, optional dedup by
//! 128-bit complete-state fingerprint, depth bound with default completion.
use std::collections::HashMap;

#[derive(Default, Clone, Debug)]
pub struct Stats {
    pub states: u64,
    pub transitions: u64,
    pub executions: u64,
    pub dedup_hits: u64,
    pub max_depth: usize,
    pub capped: bool,
}

impl Stats {
    pub fn merge(&mut self, o: &Stats) {
        self.states += o.states;
        self.transitions += o.transitions;
        self.executions += o.executions;
        self.dedup_hits += o.dedup_hits;
        self.max_depth = self.max_depth.max(o.max_depth);
        self.capped |= o.capped;
    }
}

pub trait Model {
    type S: Clone;
    type A: Copy + std::fmt::Debug;
    /// Enabled actions in state `s` (simplest first).
    fn actions(&self, s: &Self::S, out: &mut Vec<Self::A>);
    /// Apply one action to the real object, run the per-step monitors (violations are reported
    /// by the model itself). Return false to stop exploring below this state (e.g. after a
    /// reported violation).
    fn step(&self, s: &mut Self::S, a: Self::A, path: &[Self::A]) -> bool;
    /// Complete-state fingerprint, None = dedup unavailable (hooks off).
    fn fingerprint(&self, s: &Self::S) -> Option<u128>;
    fn terminal(&self, s: &Self::S) -> bool;
    /// Called at every terminal state and at every state cut by the depth bound after default
    /// completion.
    fn at_end(&self, s: &Self::S, path: &[Self::A]);
    /// Follow the default policy from `s` to a terminal state (used at the depth bound).
    fn complete(&self, s: &mut Self::S, path: &mut Vec<Self::A>);
    /// The action a constant background policy takes in state `s` (lets a model turn the policy
    /// into its closing phase, e.g. Finish once all input has been offered).
    fn policy_action(&self, _s: &Self::S, policy: Self::A) -> Self::A {
        policy
    }
}

pub struct Dfs<'m, M: Model> {
    pub m: &'m M,
    /// fingerprint -> largest remaining depth it was expanded with (a state expanded with more
    /// remaining depth covers every later visit with less)
    pub visited: HashMap<u128, u32>,
    pub dedup: bool,
    pub max_depth: usize,
    pub max_states: u64,
    pub stats: Stats,
}

impl<'m, M: Model> Dfs<'m, M> {
    pub fn new(m: &'m M, dedup: bool, max_depth: usize, max_states: u64) -> Self {
        Dfs { m, visited: HashMap::new(), dedup, max_depth, max_states, stats: Stats::default() }
    }

    pub fn run(&mut self, init: M::S) {
        let mut path = Vec::new();
        if let Some(f) = self.m.fingerprint(&init) {
            self.visited.insert(f, self.max_depth.min(u32::MAX as usize) as u32);
        }
        self.stats.states += 1;
        self.rec(&init, &mut path);
    }

    fn rec(&mut self, s: &M::S, path: &mut Vec<M::A>) {
        self.stats.max_depth = self.stats.max_depth.max(path.len());
        if self.m.terminal(s) {
            self.stats.executions += 1;
            self.m.at_end(s, path);
            return;
        }
        if path.len() >= self.max_depth {
            let mut t = s.clone();
            let l = path.len();
            self.m.complete(&mut t, path);
            self.stats.executions += 1;
            self.stats.transitions += (path.len() - l) as u64;
            self.m.at_end(&t, path);
            path.truncate(l);
            return;
        }
        if self.stats.states >= self.max_states {
            self.stats.capped = true;
            return;
        }
        let mut acts = Vec::new();
        self.m.actions(s, &mut acts);
        for a in acts {
            let mut t = s.clone();
            path.push(a);
            self.stats.transitions += 1;
            let go = self.m.step(&mut t, a, path);
            if go {
                let fresh = if self.dedup {
                    match self.m.fingerprint(&t) {
                        Some(f) => {
                            let remaining = (self.max_depth - path.len()).min(u32::MAX as usize) as u32;
                            match self.visited.get_mut(&f) {
                                None => {
                                    self.visited.insert(f, remaining);
                                    self.stats.states += 1;
                                    true
                                }
                                Some(r) if *r < remaining => {
                                    *r = remaining;
                                    true
                                }
                                Some(_) => {
                                    self.stats.dedup_hits += 1;
                                    false
                                }
                            }
                        }
                        None => true,
                    }
                } else {
                    true
                };
                if fresh {
                    if !self.dedup {
                        self.stats.states += 1;
                    }
                    self.rec(&t, path);
                }
            }
            path.pop();
        }
    }
}

/// Deviation-bounded search around a constant background policy (CHESS-style, adapted to a
/// sequential API): the policy action is taken at every call; at every call index up to `bound`
/// alternatives are substituted (recursively), and every execution still runs to a terminal
/// state under the policy. Dedup key = (fingerprint, remaining deviations): under a constant
/// policy the future of a state does not depend on how it was reached.
pub struct DevSearch<'m, M: Model> {
    pub m: &'m M,
    pub policy: M::A,
    pub alts: Vec<M::A>,
    pub visited: HashMap<u128, u32>,
    pub stats: Stats,
    pub max_calls: usize,
    pub max_states: u64,
    /// deviate only at call indexes that are multiples of `stride` (long policy runs)
    pub stride: usize,
}

impl<'m, M: Model> DevSearch<'m, M> {
    pub fn new(m: &'m M, policy: M::A, alts: Vec<M::A>, max_calls: usize, max_states: u64) -> Self {
        DevSearch { m, policy, alts, visited: HashMap::new(), stats: Stats::default(), max_calls, max_states, stride: 1 }
    }

    fn fresh(&mut self, s: &M::S, remaining: u32) -> bool {
        match self.m.fingerprint(s) {
            None => true,
            Some(f) => match self.visited.get_mut(&f) {
                None => {
                    self.visited.insert(f, remaining);
                    self.stats.states += 1;
                    true
                }
                Some(r) if *r < remaining => {
                    *r = remaining;
                    true
                }
                Some(_) => {
                    self.stats.dedup_hits += 1;
                    false
                }
            },
        }
    }

    pub fn run(&mut self, init: M::S, bound: u32) {
        let mut path = Vec::new();
        self.go(init, bound, &mut path);
    }

    fn go(&mut self, mut s: M::S, remaining: u32, path: &mut Vec<M::A>) {
        let base = path.len();
        loop {
            self.stats.max_depth = self.stats.max_depth.max(path.len());
            if self.m.terminal(&s) || path.len() >= self.max_calls {
                if !self.m.terminal(&s) {
                    self.stats.capped = true;
                }
                self.stats.executions += 1;
                self.m.at_end(&s, path);
                break;
            }
            if !self.fresh(&s, remaining) {
                break;
            }
            if self.stats.states >= self.max_states {
                self.stats.capped = true;
                break;
            }
            if remaining > 0 && path.len() % self.stride == 0 {
                for i in 0..self.alts.len() {
                    let a = self.alts[i];
                    let mut t = s.clone();
                    path.push(a);
                    self.stats.transitions += 1;
                    if self.m.step(&mut t, a, path) {
                        self.go(t, remaining - 1, path);
                    }
                    path.pop();
                }
            }
            let pa = self.m.policy_action(&s, self.policy);
            path.push(pa);
            self.stats.transitions += 1;
            if !self.m.step(&mut s, pa, path) {
                // a model may end an execution from inside step (terminal oracle already run)
                self.stats.executions += 1;
                break;
            }
        }
        path.truncate(base);
    }
}
