//! System zlib (libz 1.2.13) through FFI: an independent RFC 1950/1951 decoder and encoder.
use libc::{c_char, c_int, c_uint, c_ulong, c_void};

#[repr(C)]
pub struct ZStream {
    pub next_in: *const u8,
    pub avail_in: c_uint,
    pub total_in: c_ulong,
    pub next_out: *mut u8,
    pub avail_out: c_uint,
    pub total_out: c_ulong,
    pub msg: *const c_char,
    pub state: *mut c_void,
    pub zalloc: *mut c_void,
    pub zfree: *mut c_void,
    pub opaque: *mut c_void,
    pub data_type: c_int,
    pub adler: c_ulong,
    pub reserved: c_ulong,
}

#[link(name = "z")]
extern "C" {
    fn inflateInit2_(strm: *mut ZStream, window_bits: c_int, version: *const c_char, size: c_int) -> c_int;
    fn inflate(strm: *mut ZStream, flush: c_int) -> c_int;
    fn inflateEnd(strm: *mut ZStream) -> c_int;
    fn deflateInit2_(
        strm: *mut ZStream,
        level: c_int,
        method: c_int,
        window_bits: c_int,
        mem_level: c_int,
        strategy: c_int,
        version: *const c_char,
        size: c_int,
    ) -> c_int;
    fn deflate(strm: *mut ZStream, flush: c_int) -> c_int;
    fn deflateEnd(strm: *mut ZStream) -> c_int;
    fn adler32(adler: c_ulong, buf: *const u8, len: c_uint) -> c_ulong;
    fn crc32(crc: c_ulong, buf: *const u8, len: c_uint) -> c_ulong;
    fn zlibVersion() -> *const c_char;
}

fn zeroed() -> ZStream {
    unsafe { std::mem::zeroed() }
}

#[derive(Debug, Clone, PartialEq, Eq)]
pub struct ZInflate {
    /// Z_STREAM_END reached
    pub end: bool,
    /// zlib error code of the last call (0 OK, 1 STREAM_END, -3 DATA_ERROR, -5 BUF_ERROR ...)
    pub code: i32,
    pub out: Vec<u8>,
    pub consumed: usize,
}

/// Inflate with the given windowBits (negative = raw). `out_chunk` = size of each output grant
/// (small chunks force zlib to keep history only in its own window, so the declared window is
/// really enforced).
pub fn z_inflate(data: &[u8], window_bits: i32, out_chunk: usize, max_out: usize) -> ZInflate {
    unsafe {
        let mut s = zeroed();
        let rc = inflateInit2_(&mut s, window_bits, zlibVersion(), std::mem::size_of::<ZStream>() as c_int);
        if rc != 0 {
            return ZInflate { end: false, code: rc, out: vec![], consumed: 0 };
        }
        let mut out: Vec<u8> = Vec::new();
        let mut buf = vec![0u8; out_chunk.max(1)];
        s.next_in = data.as_ptr();
        s.avail_in = data.len() as c_uint;
        let mut code;
        let mut idle = 0;
        loop {
            s.next_out = buf.as_mut_ptr();
            s.avail_out = buf.len() as c_uint;
            code = inflate(&mut s, 0);
            let produced = buf.len() - s.avail_out as usize;
            out.extend_from_slice(&buf[..produced]);
            if code == 1 || (code != 0 && code != -5) {
                break;
            }
            if out.len() > max_out {
                break;
            }
            if produced == 0 && s.avail_in == 0 {
                // needs more input
                break;
            }
            if produced == 0 {
                idle += 1;
                if idle > 4 {
                    break;
                }
            } else {
                idle = 0;
            }
        }
        let consumed = data.len() - s.avail_in as usize;
        inflateEnd(&mut s);
        ZInflate { end: code == 1, code, out, consumed }
    }
}

/// Deflate with system zlib. window_bits negative = raw.
pub fn z_deflate(data: &[u8], level: i32, window_bits: i32, mem_level: i32, strategy: i32) -> Option<Vec<u8>> {
    unsafe {
        let mut s = zeroed();
        let rc = deflateInit2_(
            &mut s,
            level,
            8,
            window_bits,
            mem_level,
            strategy,
            zlibVersion(),
            std::mem::size_of::<ZStream>() as c_int,
        );
        if rc != 0 {
            return None;
        }
        let mut out = vec![0u8; data.len() + data.len() / 8 + 1024];
        s.next_in = data.as_ptr();
        s.avail_in = data.len() as c_uint;
        s.next_out = out.as_mut_ptr();
        s.avail_out = out.len() as c_uint;
        let code = deflate(&mut s, 4);
        let n = out.len() - s.avail_out as usize;
        deflateEnd(&mut s);
        if code != 1 {
            return None;
        }
        out.truncate(n);
        Some(out)
    }
}

pub fn z_adler32(start: u32, data: &[u8]) -> u32 {
    unsafe { adler32(start as c_ulong, data.as_ptr(), data.len() as c_uint) as u32 }
}

pub fn z_crc32(start: u32, data: &[u8]) -> u32 {
    unsafe { crc32(start as c_ulong, data.as_ptr(), data.len() as c_uint) as u32 }
}
