//! Shared corpora: plaintext inputs for the compressor properties and DEFLATE streams
//! (grammar-generated, zlib-produced, crate-produced) for the decoder properties.
use crate::gen::*;
use crate::refmodel::Token;
use crate::util::seed;

#[derive(Clone)]
pub struct Input {
    pub name: String,
    pub data: Vec<u8>,
}

/// Small exhaustive plaintext corpora: A2(n2) ∪ A3(n3) ∪ RGS(nr) under two byte injections.
pub fn small_inputs(n2: usize, n3: usize, nr: usize) -> Vec<Input> {
    let mut out = vec![];
    for s in all_strings(b"ab", n2) {
        out.push(Input { name: format!("A2:{}", String::from_utf8_lossy(&s)), data: s });
    }
    for s in all_strings(&[0x00, 0x61, 0xff], n3) {
        if s.len() > 0 {
            out.push(Input { name: format!("A3:{}", crate::util::hex(&s)), data: s });
        }
    }
    for n in 3..=nr {
        for r in rgs(n, n) {
            // injection 1: small values; injection 2: values >= 144 (9-bit fixed codes)
            let d1: Vec<u8> = r.iter().map(|&v| v).collect();
            let d2: Vec<u8> = r.iter().map(|&v| 144u8.wrapping_add(v.wrapping_mul(7))).collect();
            out.push(Input { name: format!("RGS0:{}", crate::util::hex(&r)), data: d1 });
            out.push(Input { name: format!("RGS144:{}", crate::util::hex(&r)), data: d2 });
        }
    }
    out
}

pub const SEG_KINDS: &[Seg] = &[
    Seg::Z,
    Seg::R,
    Seg::H,
    Seg::T,
    Seg::S3,
    Seg::K,
    Seg::F,
    Seg::P(1),
    Seg::P(2),
    Seg::P(3),
    Seg::P(7),
    Seg::P(258),
    Seg::P(259),
    Seg::P(4097),
    Seg::C(1),
    Seg::C(257),
    Seg::C(4096),
    Seg::C(8191),
    Seg::C(8192),
    Seg::C(32767),
    Seg::C(32768),
];

/// Shapes(k <= 2) over the given threshold menu, with a total-bytes cap per shape.
pub fn shape_specs(theta1: &[usize], theta2: &[usize], kinds2: &[Seg], cap: usize) -> Vec<Vec<(Seg, usize)>> {
    let mut v = vec![];
    for &k in SEG_KINDS {
        for &n in theta1 {
            v.push(vec![(k, n)]);
        }
    }
    for &k1 in kinds2 {
        for &n1 in theta2 {
            for &k2 in kinds2 {
                for &n2 in theta2 {
                    if n1 + n2 <= cap && !(k1 == k2 && matches!(k1, Seg::Z | Seg::F)) {
                        v.push(vec![(k1, n1), (k2, n2)]);
                    }
                }
            }
        }
    }
    v
}

pub fn shape_input(spec: &[(Seg, usize)]) -> Input {
    Input { name: shape_name(spec), data: build_shape(spec, seed()) }
}

/// Named medium inputs with dense overlapping matches (lazy-match pending at call ends).
pub fn medium_inputs() -> Vec<Input> {
    let mut v = vec![];
    let mut t = Vec::new();
    for i in 0..60 {
        t.extend_from_slice(b"abcabcabd");
        t.push(b'a' + (i % 7) as u8);
    }
    v.push(Input { name: "med:abcabcabd-var".into(), data: t });
    let mut t = Vec::new();
    for i in 0..300usize {
        t.push(b"the quick brown fox jumps over the lazy dog "[(i * 7 + i / 13) % 44]);
    }
    v.push(Input { name: "med:fox-scramble".into(), data: t });
    let mut t = Vec::new();
    for i in 0..50usize {
        t.extend_from_slice(b"xyzxyzxyzw");
        if i % 3 == 0 {
            t.extend_from_slice(b"xyzxyzq");
        }
    }
    v.push(Input { name: "med:xyz-lazy".into(), data: t });
    v.push(Input { name: "med:zeros600".into(), data: vec![0; 600] });
    v.push(shape_named("med:R400", &[(Seg::R, 400)]));
    v.push(shape_named("med:T700", &[(Seg::T, 700)]));
    v.push(shape_named("med:P3x300+R40+C(300)x200", &[(Seg::P(3), 300), (Seg::R, 40), (Seg::C(300), 200)]));
    v.push(shape_named("med:H300", &[(Seg::H, 300)]));
    v
}

pub fn shape_named(name: &str, spec: &[(Seg, usize)]) -> Input {
    Input { name: name.to_string(), data: build_shape(spec, seed()) }
}

/// Runs straddling a 32 KiB dictionary boundary: R(32768k - a) + run(a + b) + R(300). The run
/// starts `a` bytes before the boundary and ends `b` bytes past it (dictionary mirror area).
pub fn straddle_inputs(dense: bool) -> Vec<Input> {
    let mut v = vec![];
    let aa: &[usize] = if dense { &[1, 2, 3, 100, 130, 257, 258, 300] } else { &[1, 130, 258] };
    let bb: &[usize] = if dense { &[1, 2, 7, 8, 9, 10, 100, 256, 257, 258, 259, 300] } else { &[1, 9, 100, 257, 300] };
    for k in [1usize, 2] {
        for &a in aa {
            for &b in bb {
                for (fill, seg) in [("Z", Seg::Z), ("F", Seg::F)] {
                    if fill == "F" && !(dense || (a == 130 && b == 100)) {
                        continue;
                    }
                    v.push(shape_named(&format!("straddle:k{}a{}b{}{}", k, a, b, fill), &[(Seg::R, 32768 * k - a), (seg, a + b), (Seg::R, 300)]));
                }
            }
        }
    }
    v.extend(mirror_probe_inputs());
    v.extend(lazy_resave_edge_inputs());
    v
}

/// A lazy-matching step that emits the previous byte as a literal and re-saves a longer match,
/// placed at every offset around the size at which the compressor cuts a block that is not
/// compressing (31 KiB): L incompressible bytes (holding "ZAB#" and "#ABCDEFGH" 1.7 KB back), then
/// "ZABCDEFGH" (a 3-byte match "ZAB", superseded one byte later by the 8-byte match "ABCDEFGH"),
/// then 60 incompressible bytes (a following block small enough to be emitted stored).
pub fn lazy_resave_edge_inputs() -> Vec<Input> {
    let mut v = vec![];
    for l in 31_736usize..=31_752 {
        let mut d = shape_named("x", &[(Seg::R, l + 60)]).data;
        // the filler must not contain the phrases by accident
        for i in 0..d.len() {
            if d[i] == b'Z' || d[i] == b'#' {
                d[i] = 0x80;
            }
        }
        let tail = d.split_off(l);
        // (near enough for a 3-byte match to be kept: the compressor drops those from 8 KiB on)
        d[l - 1744..l - 1740].copy_from_slice(b"ZAB#");
        d[l - 1644..l - 1635].copy_from_slice(b"#ABCDEFGH");
        d.extend_from_slice(b"ZABCDEFGH");
        d.extend_from_slice(&tail);
        v.push(Input { name: format!("lazy-resave:L{}", l), data: d });
    }
    v
}

/// Probes for the copy of the first 257 dictionary bytes that the compressor keeps past the end
/// of its 32 KiB ring (read unmasked near the wrap). W = 32768*k; M = the 12 bytes that sat at
/// ring offset 0.. one window earlier (input[W-32768..]). The input plants the phrase v^a ++ M
/// 300 bytes before W and ends the window with v^a, followed by *different* bytes Y: a compressor
/// whose copy is stale at the wrap sees v^a ++ M there and codes Y as a repeat of the phrase.
/// Prefix R (incompressible, >= 59 000 bytes: compress_to_vec's output vector fills up in the first
/// block flush and the compressor is re-entered with its 4096-byte lookahead chunks out of step)
/// or T (text); everything from 59 000 on is compressible so the blocks are not stored.
pub fn mirror_probe_inputs() -> Vec<Input> {
    let mut v = vec![];
    let p = 0xEEu8;
    for k in [1usize, 2, 3] {
        let w = 32768 * k;
        for a in [1usize, 2] {
            for pre in ["R", "T"] {
                let mut d: Vec<u8> = if pre == "R" {
                    let mut x = shape_named("r", &[(Seg::R, w.min(59_000))]).data;
                    if w > 59_000 {
                        x.extend(shape_named("t", &[(Seg::T, w - 59_000)]).data);
                    }
                    x
                } else {
                    shape_named("t", &[(Seg::T, w)]).data
                };
                // keep v out of the neighbourhood so the planted phrase is the only candidate
                for b in d[w - 700..].iter_mut() {
                    if *b == p {
                        *b = 0x20;
                    }
                }
                let m: Vec<u8> = d[w - 32768..w - 32768 + 12].to_vec();
                let at = w - 300;
                for i in 0..a {
                    d[at + i] = p;
                }
                d[at + a..at + a + 12].copy_from_slice(&m);
                for i in 0..a {
                    d[w - a + i] = p;
                }
                // Y: text that differs from M
                let mut y = shape_named("y", &[(Seg::T, 700)]).data;
                if y[0] == m[0] {
                    y[0] ^= 0x55;
                }
                d.extend(y);
                v.push(Input { name: format!("mirror:k{}a{}{}", k, a, pre), data: d });
            }
        }
    }
    v
}

/// Inputs for a Full flush issued after the 32 KiB dictionary has wrapped: (input, cut). The bytes
/// after the cut start with material that is only cheap to code by referring to the bytes just
/// *before* the cut: a run continuing the last pre-flush byte ("run"), or phrases that begin with
/// the last pre-flush byte ("trig": S p S p S with p = that byte).
pub fn wrapfull_inputs() -> Vec<(Input, usize)> {
    let mut v = vec![];
    for l in [32768 + 5usize, 40_000, 65536 + 3, 98304 + 7] {
        for kind in ["run", "trig"] {
            let mut d = shape_named("t", &[(Seg::T, l - 3)]).data;
            let p = 0xEEu8;
            d.extend_from_slice(&[p, p, p]);
            if kind == "run" {
                d.extend(std::iter::repeat(p).take(300));
            } else {
                let s = [0xA1u8, 0xB2, 0xC3, 0xD4, 0xE5, 0xF6, 0x97, 0x88];
                for _ in 0..4 {
                    d.extend_from_slice(&s);
                    d.push(p);
                }
            }
            d.extend(shape_named("t2", &[(Seg::T, 200)]).data);
            v.push((Input { name: format!("wrapfull:L{}:{}", l, kind), data: d }, l));
        }
    }
    v
}

/// Inputs that bring the compressor's 64 KiB LZ code buffer to within a few bytes of its capacity
/// at the moment the lazy parser records *two* symbols in one step (a deferred literal and a match
/// of 128+ bytes): ~58 000 bytes of noise (one code byte each, plus a flag byte per 8 symbols),
/// swept byte by byte so that every fill level and flag phase occurs (after a 3000-byte run that keeps the block from being cut early), then "abc" ++ W where
/// "abcQ" (3-byte match, deferred) and "bc" ++ W (202-byte match one position later) lie in the window.
pub fn lzbuf_edge_inputs(thorough: bool) -> Vec<Input> {
    let mut v = vec![];
    let mut l = crate::util::Lcg(0x1b0f ^ crate::util::seed());
    let noise: Vec<u8> = (0..60_000).map(|_| 0x80 | (l.byte() & 0x7f)).collect();
    let w: Vec<u8> = (0..200).map(|_| 0x20 + (l.byte() % 0x5f)).collect();
    // n1 moves the code-buffer position at the two-code step byte by byte; the number of extra
    // 258-byte run matches in front (j) shifts the phase between that position and the flag bits
    // left in the current flag byte (a match costs 3 code bytes and one flag bit, a literal 1 and 1)
    let (lo, hi, step) = if thorough { (55_300usize, 56_100usize, 1usize) } else { (55_500, 55_960, 1) };
    for j in 0..8usize {
        for n1 in (lo..hi).step_by(step) {
            // (a run first: its few codes stand for many bytes, so the block never looks "fat" and is
            // not cut at 31 KiB but only when the code buffer is full)
            let mut d: Vec<u8> = vec![0u8; 3000 + 258 * j];
            d.extend_from_slice(&noise[..n1]);
            d.extend_from_slice(b"bc");
            d.extend_from_slice(&w);
            d.extend_from_slice(&noise[n1..n1 + 300]);
            d.extend_from_slice(b"abcQ");
            d.extend_from_slice(&noise[n1 + 300..n1 + 2300]);
            d.extend_from_slice(b"abc");
            d.extend_from_slice(&w);
            d.extend_from_slice(&noise[n1 + 2300..n1 + 2350]);
            v.push(Input { name: format!("lzbuf-edge:j{}n{}", j, n1), data: d });
        }
    }
    v
}

/// Inputs that compress to an alternation of one literal and one maximum-length match (a varying
/// separator byte in front of each copy of a 258-byte phrase), behind a noise prefix of every
/// length 0..=100: the decoder's fast loop then meets "one literal + one 258-byte match" at every
/// fill level of the growing output vector of the one-shot functions.
pub fn lit258_inputs(thorough: bool) -> Vec<Input> {
    let mut l = crate::util::Lcg(0x258 ^ crate::util::seed());
    let phrase: Vec<u8> = (0..258).map(|_| l.byte()).collect();
    let noise: Vec<u8> = (0..128).map(|_| l.byte()).collect();
    let mut v = vec![];
    for p in (0..=100usize).step_by(if thorough { 1 } else { 1 }) {
        let mut d = noise[..p].to_vec();
        for i in 0..(if thorough { 260 } else { 200 }) {
            d.push((i * 7 + 3) as u8);
            d.extend_from_slice(&phrase);
        }
        v.push(Input { name: format!("lit258:p{}", p), data: d });
    }
    v
}

/// Incompressible inputs with a *dosed* amount of redundancy at the front (200 bytes, the same 200
/// again, and their first k bytes once more, k swept): the compressor cuts a block as "not
/// compressing" as soon as the code bytes catch up with the input bytes, so the first block ends
/// at every offset between 31 744 and ~33 000 as k varies - around the point where the block no
/// longer fits the dictionary together with the look-ahead.
pub fn fat_edge_inputs(thorough: bool) -> Vec<Input> {
    let mut l = crate::util::Lcg(0xfa7 ^ crate::util::seed());
    let noise: Vec<u8> = (0..41_000).map(|_| l.byte()).collect();
    let mut v = vec![];
    for k in (0..=(if thorough { 600usize } else { 400 })).step_by(1) {
        let mut d: Vec<u8> = noise[..200].to_vec();
        d.extend_from_slice(&noise[..200]);
        let mut left = k;
        while left > 0 {
            let t = left.min(200);
            d.extend_from_slice(&noise[..t]);
            left -= t;
        }
        let fill = 40_000 - d.len();
        d.extend_from_slice(&noise[400..400 + fill]);
        v.push(Input { name: format!("fat-edge:k{}", k), data: d });
    }
    v
}

/// The input whose coded block is as large as a block can get: period-20 000 text with one byte
/// changed every 200 (so the LZ code buffer fills up with ~199-byte matches at a distance with 13
/// extra bits: 3 code bytes each, but up to 31 bits once coded with the fixed tables).
pub fn max_block_input() -> Input {
    let mut l = crate::util::Lcg(0xb16b ^ crate::util::seed());
    let base: Vec<u8> = (0..20_000).map(|_| l.byte()).collect();
    let mut d: Vec<u8> = Vec::with_capacity(2_600_000);
    let mut n = 0u32;
    while d.len() < 2_600_000 {
        d.extend_from_slice(&base);
        let at = d.len() - 20_000;
        let mut i = at + (n as usize * 7) % 200;
        while i < d.len() {
            d[i] = d[i].wrapping_add(1 + (n % 250) as u8);
            i += 200;
        }
        n += 1;
    }
    Input { name: "max-block:P20000".into(), data: d }
}

/// Probes for the ring slots shared by the oldest dictionary bytes and the newest look-ahead bytes:
/// filler (bytes >= 0x80), "Seedmark" at P, "seedmark" `gap` bytes later (the first bytes differ only
/// in bits the 3-byte hash drops, so the old position is a candidate), and the current first byte
/// again k bytes after it (where the look-ahead currently ends). gap sweeps the neighbourhood of the
/// largest match distance (32 768 - 258 +- 5), k the neighbourhood of the look-ahead size: a match
/// finder that reads a slot the look-ahead has already overwritten takes "Seedmark" for "seedmark".
pub fn window_edge_stale_slot_inputs() -> Vec<Input> {
    let mut v = vec![];
    for gap in 32_505usize..=32_515 {
        for k in [256usize, 257, 258] {
            let p = 1000;
            let mut l = crate::util::Lcg(0x57a1e ^ crate::util::seed());
            let mut d: Vec<u8> = (0..p + gap + 700).map(|_| 0x80 | (l.byte() & 0x7f)).collect();
            d[p..p + 8].copy_from_slice(b"Seedmark");
            d[p + gap..p + gap + 8].copy_from_slice(b"seedmark");
            d[p + gap + k] = b's';
            v.push(Input { name: format!("stale-slot:gap{}k{}", gap, k), data: d });
        }
    }
    v
}

/// Inputs that make the crate's *own* encoder emit distance codes of every length 1..=15:
/// trigram-free filler with 3-byte repeats planted at one distance per distance class 2..=16 in
/// Fibonacci proportions (987, 610 ... 2, 1), and one 200-byte repeat from more than 16 KiB back
/// (the rarest class, so a 15-bit code with 13 extra bits, after a length symbol with 5 extra
/// bits). One input per pad value; pad moves the far repeat to a different place among the planted
/// units and reseeds their order, so it is met at different bit alignments / bit-buffer fills.
pub fn skewed_distance_inputs(thorough: bool) -> Vec<Input> {
    let mut v = vec![];
    let dists: [usize; 15] = [3, 4, 5, 7, 9, 13, 17, 25, 33, 49, 65, 97, 129, 193, 257];
    let fib: [usize; 15] = [1, 2, 3, 5, 8, 13, 21, 34, 55, 89, 144, 233, 377, 610, 987];
    for pad in (0..32usize).step_by(if thorough { 1 } else { 2 }) {
        let mut l = crate::util::Lcg(0xd157 ^ crate::util::seed() ^ ((pad as u64) << 20));
        // trigram-free filler: the only repeats in the data are the planted ones
        let mut seen = vec![0u64; (1 << 24) / 64];
        let mut d: Vec<u8> = Vec::new();
        fn tri(d: &[u8], b: u8) -> Option<usize> {
            let n = d.len();
            if n < 2 {
                None
            } else {
                Some(((d[n - 2] as usize) << 16) | ((d[n - 1] as usize) << 8) | b as usize)
            }
        }
        fn push_new(d: &mut Vec<u8>, seen: &mut [u64], b: u8) -> bool {
            match tri(d, b) {
                None => {
                    d.push(b);
                    true
                }
                Some(t) if (seen[t >> 6] >> (t & 63)) & 1 != 0 => false,
                Some(t) => {
                    seen[t >> 6] |= 1 << (t & 63);
                    d.push(b);
                    true
                }
            }
        }
        let fresh = |d: &mut Vec<u8>, seen: &mut [u64], l: &mut crate::util::Lcg| loop {
            if push_new(d, seen, l.byte()) {
                return;
            }
        };
        // a copy of d[src..src+len]: the two trigrams straddling its start must be new
        let copy = |d: &mut Vec<u8>, seen: &mut [u64], src: usize, len: usize| -> bool {
            for i in 0..len {
                let b = d[src + i];
                if i < 2 {
                    if !push_new(d, seen, b) {
                        return false;
                    }
                } else {
                    if let Some(t) = tri(d, b) {
                        seen[t >> 6] |= 1 << (t & 63);
                    }
                    d.push(b);
                }
            }
            true
        };
        for _ in 0..pad + 16 {
            fresh(&mut d, &mut seen, &mut l);
        }
        let far_src = d.len();
        for _ in 0..204 {
            fresh(&mut d, &mut seen, &mut l);
        }
        // schedule: class c appears fib[14 - c] times (near distances frequent), interleaved
        let mut sched: Vec<usize> = vec![];
        for (c, &f) in fib.iter().rev().enumerate() {
            for _ in 0..f {
                sched.push(c);
            }
        }
        for i in (1..sched.len()).rev() {
            let j = (l.next_u32() as usize) % (i + 1);
            sched.swap(i, j);
        }
        // a unit = `dist` fresh bytes, then their first three again; the far repeat goes in between
        // two units as soon as its source is more than 16 KiB back, so the bits in front of it differ
        // from input to input (literal runs alone would keep the bit alignment fixed)
        let mut far_done = false;
        for &c in &sched {
            if !far_done && d.len() >= far_src + 16_500 + 37 * pad {
                loop {
                    let start = d.len();
                    if copy(&mut d, &mut seen, far_src, 200) {
                        break;
                    }
                    d.truncate(start);
                    fresh(&mut d, &mut seen, &mut l);
                }
                far_done = true;
            }
            loop {
                let start = d.len();
                for _ in 0..dists[c] {
                    fresh(&mut d, &mut seen, &mut l);
                }
                let src = d.len() - dists[c];
                if copy(&mut d, &mut seen, src, 3) {
                    break;
                }
                d.truncate(start + dists[c]);
            }
        }
        assert!(far_done);
        for _ in 0..40 {
            fresh(&mut d, &mut seen, &mut l);
        }
        v.push(Input { name: format!("skewed-dist:pad{}", pad), data: d });
    }
    v
}

/// Long inputs (66–200 KB): flush_block runs mid-call, blocks partially drained.
pub fn long_inputs() -> Vec<Input> {
    vec![
        shape_named("long:T70000", &[(Seg::T, 70000)]),
        shape_named("long:R66000", &[(Seg::R, 66000)]),
        shape_named("long:S3x90000", &[(Seg::S3, 90000)]),
        shape_named("long:Z40000+R30000+C32768x40000", &[(Seg::Z, 40000), (Seg::R, 30000), (Seg::C(32768), 40000)]),
        shape_named("long:P259x100000", &[(Seg::P(259), 100000)]),
        shape_named("long:T33000+H50000+T33000", &[(Seg::T, 33000), (Seg::H, 50000), (Seg::T, 33000)]),
        // the last input byte is the one at which the compressor cuts a block by itself (2 x (31 KiB + 1))
        shape_named("long:R63490", &[(Seg::R, 63490)]),
    ]
}

// ---------------------------------------------------------------------------------------
// Stream corpora
// ---------------------------------------------------------------------------------------

fn lit(b: u8) -> Token {
    Token::Lit(b)
}
fn m(len: u16, dist: u16) -> Token {
    Token::Match { len, dist }
}

/// Token lists used across the grammar (each must be valid from an empty history unless noted).
pub fn token_menu() -> Vec<(&'static str, Vec<Token>)> {
    vec![
        ("empty", vec![]),
        ("lit1", vec![lit(0x61)]),
        ("lit-hi", vec![lit(0x8f), lit(0xff), lit(0x00)]),
        ("rle", vec![lit(0x61), m(258, 1)]),
        ("rle3", vec![lit(0x00), m(3, 1)]),
        ("ovl2", vec![lit(0x61), lit(0x62), m(7, 2)]),
        ("ovl3", vec![lit(0x61), lit(0x62), lit(0x63), m(10, 3), m(4, 1)]),
        ("two", vec![lit(1), lit(2), lit(3), lit(4), m(4, 4), lit(9), m(3, 9), m(5, 2)]),
        ("text", b"hello hello hello, world".iter().map(|&b| lit(b)).collect()),
    ]
}

/// The compact valid corpus (≈ a few hundred short streams covering all block kinds and code specs).
pub fn compact_corpus(zlib_variants: bool) -> Vec<GenStream> {
    let mut out = vec![];
    let formats: Vec<Option<(u8, u8)>> = if zlib_variants { vec![None, Some((7, 2)), Some((0, 0))] } else { vec![None] };
    for fmt in &formats {
        let menu = token_menu();
        // single blocks of each kind
        for (_, toks) in &menu {
            let mut b = StreamBuilder::new(*fmt);
            b.fixed(toks, true);
            out.push(b.finish());
            for shape in [CodeShape::Flat, CodeShape::ChainDeep(9), CodeShape::ChainDeep(15), CodeShape::ChainShallow(12)] {
                for dshape in [CodeShape::Flat, CodeShape::ChainDeep(15)] {
                    if let Some(spec) = dyn_spec_for(toks, shape, dshape) {
                        let mut b = StreamBuilder::new(*fmt);
                        b.dynamic(&spec, toks, true);
                        out.push(b.finish());
                    }
                }
            }
        }
        // stored blocks at each alignment
        for align in 0..8 {
            for data in [&b""[..], &b"x"[..], &b"hello"[..]] {
                let mut b = StreamBuilder::new(*fmt);
                align_filler(&mut b, align);
                b.stored(data, true);
                out.push(b.finish());
            }
        }
        // multi-block mixes
        let toks = &menu[5].1;
        let mut b = StreamBuilder::new(*fmt);
        b.stored(b"abc", false).fixed(&[m(3, 3), lit(0x7a)], false);
        let spec = dyn_spec_for(&[lit(0x7a), m(5, 4)], CodeShape::Flat, CodeShape::Flat).unwrap();
        b.dynamic(&spec, &[lit(0x7a), m(5, 4)], false).stored(b"", false).fixed(toks, true);
        out.push(b.finish());
        let mut b = StreamBuilder::new(*fmt);
        b.fixed(&[], false).fixed(&[], false).stored(b"q", false).fixed(&[m(4, 1)], true);
        out.push(b.finish());
    }
    out
}

/// zlib-produced and crate-produced streams for a few plaintexts (third-party producers).
pub fn produced_corpus() -> Vec<GenStream> {
    let mut out = vec![];
    let mut plains: Vec<Vec<u8>> = vec![
        b"".to_vec(),
        b"a".to_vec(),
        b"Hello, zlib! Hello, zlib! Hello, zlib!".to_vec(),
    ];
    for i in medium_inputs().into_iter().take(4) {
        plains.push(i.data);
    }
    for p in &plains {
        for (level, strat) in [(1, 0), (6, 0), (9, 0), (6, 2), (6, 3), (6, 4), (0, 0)] {
            for wb in [-15, 15, -9, 9] {
                if let Some(z) = crate::zlibffi::z_deflate(p, level, wb, 8, strat) {
                    out.push(GenStream {
                        bytes: z,
                        plain: p.clone(),
                        deflate_bits: 0,
                        zlib: wb > 0,
                        desc: format!("zlib-produced(level={},strategy={},wbits={},n={})", level, strat, wb, p.len()),
                        nblocks: 0,
                        block_starts: vec![],
                        block_out_starts: vec![],
                    });
                }
            }
        }
        for level in [0u8, 1, 6, 9] {
            for zl in [false, true] {
                let c = if zl {
                    miniz_oxide::deflate::compress_to_vec_zlib(p, level)
                } else {
                    miniz_oxide::deflate::compress_to_vec(p, level)
                };
                out.push(GenStream {
                    bytes: c,
                    plain: p.clone(),
                    deflate_bits: 0,
                    zlib: zl,
                    desc: format!("crate-produced(level={},zlib={},n={})", level, zl, p.len()),
                    nblocks: 0,
                    block_starts: vec![],
                    block_out_starts: vec![],
                });
            }
        }
    }
    out
}
