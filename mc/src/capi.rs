//! C ABI driver: guard-paged caller buffers, a fault handler that turns SIGSEGV/SIGBUS/SIGABRT
//! into a violation naming the running case, and thin wrappers over the exported functions.
use libc::{c_int, c_ulong, c_void};
use miniz_oxide_c_api as capi;
use std::cell::RefCell;
use std::collections::HashMap;

pub const PAGE: usize = 4096;

#[derive(Clone, Copy, PartialEq, Eq, Hash, Debug)]
pub enum Place {
    /// buffer ends exactly at an inaccessible page
    End,
    /// buffer starts exactly after an inaccessible page
    Start,
}

pub struct GuardBuf {
    base: *mut u8,
    map_len: usize,
    pub ptr: *mut u8,
    pub len: usize,
}

impl GuardBuf {
    pub fn new(len: usize, place: Place) -> GuardBuf {
        let data_pages = (len + PAGE - 1) / PAGE + 1;
        let map_len = (data_pages + 2) * PAGE;
        unsafe {
            let base = libc::mmap(std::ptr::null_mut(), map_len, libc::PROT_READ | libc::PROT_WRITE, libc::MAP_PRIVATE | libc::MAP_ANONYMOUS, -1, 0) as *mut u8;
            assert!(base as isize != -1, "mmap failed");
            // first and last page inaccessible
            libc::mprotect(base as *mut c_void, PAGE, libc::PROT_NONE);
            libc::mprotect(base.add(map_len - PAGE) as *mut c_void, PAGE, libc::PROT_NONE);
            let ptr = match place {
                Place::End => base.add(map_len - PAGE - len),
                Place::Start => base.add(PAGE),
            };
            GuardBuf { base, map_len, ptr, len }
        }
    }
    pub fn slice(&self) -> &[u8] {
        unsafe { std::slice::from_raw_parts(self.ptr, self.len) }
    }
    pub fn slice_mut(&mut self) -> &mut [u8] {
        unsafe { std::slice::from_raw_parts_mut(self.ptr, self.len) }
    }
    pub fn fill(&mut self, data: &[u8]) {
        self.slice_mut()[..data.len()].copy_from_slice(data);
    }
}

impl Drop for GuardBuf {
    fn drop(&mut self) {
        unsafe {
            libc::munmap(self.base as *mut c_void, self.map_len);
        }
    }
}

thread_local! { static POOL: RefCell<HashMap<(usize, Place, u8), GuardBuf>> = RefCell::new(HashMap::new()); }

/// Pooled guard buffer per (length, placement, role) for the calling thread. The returned raw
/// pointer stays valid for the life of the thread.
pub fn pooled(len: usize, place: Place, role: u8) -> (*mut u8, usize) {
    POOL.with(|p| {
        let mut p = p.borrow_mut();
        let g = p.entry((len, place, role)).or_insert_with(|| GuardBuf::new(len, place));
        (g.ptr, g.len)
    })
}

// ---------------------------------------------------------------------------------------
// fault handler
// ---------------------------------------------------------------------------------------

static mut FAULT_PROP: [u8; 8] = [0; 8];

extern "C" fn on_fault(sig: c_int, info: *mut libc::siginfo_t, _ctx: *mut c_void) {
    unsafe {
        let addr = if info.is_null() { 0usize } else { (*info).si_addr() as usize };
        let prop = std::str::from_utf8(&FAULT_PROP[..3]).unwrap_or("C17").to_string();
        let (a, b) = crate::watchdog::current_ids();
        let path = crate::evidence::write_replay(
            &prop,
            &serde_json::json!({"property": prop, "kind": "fault", "signal": sig, "address": format!("{:#x}", addr), "work_item": a, "sub": b,
                                 "note": "memory fault or abort inside an exported C function (guard page hit or panic across the ABI)"}),
        );
        let msg = format!("VIOLATION property={} replay={} kind=fault signal={} addr={:#x} work_item={} sub={}\n", prop, path, sig, addr, a, b);
        libc::write(1, msg.as_ptr() as *const c_void, msg.len());
        crate::evidence::emergency_evidence(&prop, "fault");
        libc::_exit(1);
    }
}

pub fn install_fault_handler(prop: &str) {
    unsafe {
        let b = prop.as_bytes();
        for i in 0..b.len().min(8) {
            FAULT_PROP[i] = b[i];
        }
        let mut sa: libc::sigaction = std::mem::zeroed();
        sa.sa_sigaction = on_fault as usize;
        sa.sa_flags = libc::SA_SIGINFO | libc::SA_NODEFER;
        libc::sigemptyset(&mut sa.sa_mask);
        for s in [libc::SIGSEGV, libc::SIGBUS, libc::SIGABRT, libc::SIGILL] {
            libc::sigaction(s, &sa, std::ptr::null_mut());
        }
    }
}

// ---------------------------------------------------------------------------------------
// mz_stream schedules
// ---------------------------------------------------------------------------------------

#[derive(Clone, Debug, PartialEq, Eq)]
pub struct CallObs {
    pub ret: i32,
    pub consumed: usize,
    pub written: usize,
    pub out: Vec<u8>,
    pub adler: u32,
}

pub fn new_stream() -> capi::mz_stream {
    capi::mz_stream::default()
}

/// One mz_deflate / mz_inflate call with `avail_in` bytes of `input[ip..]` and `avail_out`
/// bytes of room, both placed against guard pages; checks the pointer/count accounting.
/// Returns Err(description) on an accounting violation.
pub unsafe fn stream_call(
    s: &mut capi::mz_stream,
    inflate: bool,
    input: &[u8],
    ip: usize,
    avail_in: usize,
    avail_out: usize,
    flush: i32,
    place: Place,
) -> Result<CallObs, String> {
    let avail_in = avail_in.min(input.len() - ip);
    let (inp, _) = pooled(avail_in, place, 0);
    std::ptr::copy_nonoverlapping(input.as_ptr().add(ip), inp, avail_in);
    let (outp, _) = pooled(avail_out, place, 1);
    std::ptr::write_bytes(outp, 0xA5, avail_out);
    s.next_in = inp;
    s.avail_in = avail_in as u32;
    s.next_out = outp;
    s.avail_out = avail_out as u32;
    let (ti0, to0) = (s.total_in, s.total_out);
    let ret = if inflate { capi::mz_inflate(s, flush) } else { capi::mz_deflate(s, flush) };
    if ret == -2 || ret == -10000 {
        // stream/param error: nothing may have moved
        return Ok(CallObs { ret, consumed: 0, written: 0, out: vec![], adler: s.adler as u32 });
    }
    if s.avail_in as usize > avail_in || s.avail_out as usize > avail_out {
        return Err(format!("avail grew: in {}->{} out {}->{}", avail_in, s.avail_in, avail_out, s.avail_out));
    }
    let consumed = avail_in - s.avail_in as usize;
    let written = avail_out - s.avail_out as usize;
    if s.next_in != inp.add(consumed) as *const u8 {
        return Err(format!("next_in advanced by {} but avail_in dropped by {}", (s.next_in as usize).wrapping_sub(inp as usize), consumed));
    }
    if s.next_out != outp.add(written) {
        return Err(format!("next_out advanced by {} but avail_out dropped by {}", (s.next_out as usize).wrapping_sub(outp as usize), written));
    }
    if s.total_in != ti0 + consumed as c_ulong || s.total_out != to0 + written as c_ulong {
        return Err(format!("totals: total_in {}->{} (consumed {}), total_out {}->{} (written {})", ti0, s.total_in, consumed, to0, s.total_out, written));
    }
    // nothing beyond `written` may have been touched
    let o = std::slice::from_raw_parts(outp, avail_out);
    // (inflate only: the compressor may use the rest of the offered buffer as scratch space)
    if inflate && o[written..].iter().any(|&b| b != 0xA5) {
        return Err("bytes beyond the reported output count were modified".into());
    }
    Ok(CallObs { ret, consumed, written, out: o[..written].to_vec(), adler: s.adler as u32 })
}

pub fn bound(n: usize) -> usize {
    capi::mz_deflateBound(std::ptr::null_mut(), n as c_ulong) as usize
}

pub fn compress_bound(n: usize) -> usize {
    capi::mz_compressBound(n as c_ulong) as usize
}

/// mz_compress2 into a guard-paged destination of `dest_cap` bytes.
pub fn compress2(src: &[u8], level: i32, dest_cap: usize, place: Place) -> (i32, Vec<u8>) {
    unsafe {
        let (inp, _) = pooled(src.len(), place, 2);
        std::ptr::copy_nonoverlapping(src.as_ptr(), inp, src.len());
        let (outp, _) = pooled(dest_cap, place, 3);
        let mut dl: c_ulong = dest_cap as c_ulong;
        let r = capi::mz_compress2(outp, &mut dl, inp, src.len() as c_ulong, level);
        let n = (dl as usize).min(dest_cap);
        (r, std::slice::from_raw_parts(outp, if r == 0 { n } else { 0 }).to_vec())
    }
}

pub fn uncompress(src: &[u8], dest_cap: usize, place: Place) -> (i32, Vec<u8>) {
    unsafe {
        let (inp, _) = pooled(src.len(), place, 2);
        std::ptr::copy_nonoverlapping(src.as_ptr(), inp, src.len());
        let (outp, _) = pooled(dest_cap, place, 3);
        let mut dl: c_ulong = dest_cap as c_ulong;
        let r = capi::mz_uncompress(outp, &mut dl, inp, src.len() as c_ulong);
        let n = (dl as usize).min(dest_cap);
        (r, std::slice::from_raw_parts(outp, if r == 0 { n } else { 0 }).to_vec())
    }
}

pub fn c_adler32(start: u64, data: Option<&[u8]>) -> u64 {
    unsafe {
        match data {
            None => capi::mz_adler32(start as c_ulong, std::ptr::null(), 0) as u64,
            Some(d) => {
                let (p, _) = pooled(d.len(), Place::End, 4);
                std::ptr::copy_nonoverlapping(d.as_ptr(), p, d.len());
                capi::mz_adler32(start as c_ulong, p, d.len()) as u64
            }
        }
    }
}

pub fn c_crc32(start: u64, data: Option<&[u8]>) -> u64 {
    unsafe {
        match data {
            None => capi::mz_crc32(start as c_ulong, std::ptr::null(), 0) as u64,
            Some(d) => {
                let (p, _) = pooled(d.len(), Place::End, 4);
                std::ptr::copy_nonoverlapping(d.as_ptr(), p, d.len());
                capi::mz_crc32(start as c_ulong, p, d.len()) as u64
            }
        }
    }
}

/// tinfl_decompress on guard-paged buffers: returns (status, consumed, written, output).
pub fn tinfl_once(r: *mut capi::tinfl_decompressor, input: &[u8], out_len: usize, out_pos: usize, flags: u32, place: Place) -> (i32, usize, usize, Vec<u8>) {
    unsafe {
        let (inp, _) = pooled(input.len(), place, 5);
        std::ptr::copy_nonoverlapping(input.as_ptr(), inp, input.len());
        let (outp, _) = pooled(out_len, place, 6);
        let mut in_sz = input.len();
        let mut out_sz = out_len - out_pos;
        let st = capi::tinfl_decompress(r, inp, &mut in_sz, outp, outp.add(out_pos), &mut out_sz, flags);
        let w = out_sz.min(out_len - out_pos);
        (st, in_sz, out_sz, std::slice::from_raw_parts(outp.add(out_pos), w).to_vec())
    }
}

pub fn tinfl_mem_to_mem(src: &[u8], out_cap: usize, flags: i32, place: Place) -> (usize, Vec<u8>) {
    unsafe {
        let (inp, _) = pooled(src.len(), place, 5);
        std::ptr::copy_nonoverlapping(src.as_ptr(), inp, src.len());
        let (outp, _) = pooled(out_cap, place, 6);
        let n = capi::tinfl_decompress_mem_to_mem(outp as *mut c_void, out_cap, inp as *const c_void, src.len(), flags);
        let w = if n == usize::MAX { 0 } else { n.min(out_cap) };
        (n, std::slice::from_raw_parts(outp, w).to_vec())
    }
}

pub fn tinfl_mem_to_heap(src: &[u8], flags: i32, place: Place) -> Option<Vec<u8>> {
    unsafe {
        let (inp, _) = pooled(src.len(), place, 5);
        std::ptr::copy_nonoverlapping(src.as_ptr(), inp, src.len());
        let mut n: usize = 0;
        let p = capi::tinfl_decompress_mem_to_heap(inp as *const c_void, src.len(), &mut n, flags);
        if p.is_null() {
            return None;
        }
        let v = std::slice::from_raw_parts(p as *const u8, n).to_vec();
        capi::miniz_def_free_func(std::ptr::null_mut(), p);
        Some(v)
    }
}

pub fn tdefl_mem_to_heap(src: &[u8], flags: i32, place: Place) -> Option<Vec<u8>> {
    unsafe {
        let (inp, _) = pooled(src.len(), place, 5);
        std::ptr::copy_nonoverlapping(src.as_ptr(), inp, src.len());
        let mut n: usize = 0;
        let p = capi::tdefl_compress_mem_to_heap(inp as *const c_void, src.len(), &mut n, flags);
        if p.is_null() {
            return None;
        }
        let v = std::slice::from_raw_parts(p as *const u8, n).to_vec();
        capi::miniz_def_free_func(std::ptr::null_mut(), p);
        Some(v)
    }
}

pub fn tdefl_mem_to_mem(src: &[u8], out_cap: usize, flags: i32, place: Place) -> (usize, Vec<u8>) {
    unsafe {
        let (inp, _) = pooled(src.len(), place, 5);
        std::ptr::copy_nonoverlapping(src.as_ptr(), inp, src.len());
        let (outp, _) = pooled(out_cap, place, 6);
        std::ptr::write_bytes(outp, 0xA5, out_cap);
        let n = capi::tdefl_compress_mem_to_mem(outp as *mut c_void, out_cap, inp as *const c_void, src.len(), flags);
        (n, std::slice::from_raw_parts(outp, n.min(out_cap)).to_vec())
    }
}
