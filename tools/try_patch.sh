#!/bin/bash
# usage: tools/try_patch.sh <patch.diff> <ID> [tier]   — applies the patch to /repo, runs the check, always reverts.
P="$1"; ID="$2"; T="${3:-quick}"
cd /repo || exit 9
if [ -n "$(git status --porcelain)" ]; then echo "/repo not clean"; exit 9; fi
trap 'git -C /repo checkout -- . >/dev/null 2>&1' EXIT
git apply "$P" || { echo "patch does not apply"; exit 9; }
cd /verif && ./check "$ID" "$T" 2>&1 | cut -c1-400 | head -${LINES_MAX:-12}
echo "rc=${PIPESTATUS[0]}"
