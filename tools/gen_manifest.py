#!/usr/bin/env python3
"""Generates /verif/MANIFEST.json from the table below (kept in one place so it stays valid)."""
import json, os, subprocess
D = os.path.dirname(os.path.dirname(os.path.abspath(__file__)))
hooks_commit = subprocess.run(["git", "-C", "/repo", "log", "--format=%H", "--grep=^verif hooks"], capture_output=True, text=True).stdout.split()

CHECKS = {
 "C01": ("exploration", "bounded-exhaustive input enumeration (all strings over small alphabets, all equality patterns, threshold shapes) x all levels x {raw,zlib} on the real one-shot functions, three-party decode oracle",
         "Every element of the stated finite input x level space is compressed by the real code and decoded by the crate, an independent bit-level reference decoder and system zlib; within that space the round trip is decided completely, outside it nothing is claimed. Right level because the property quantifies over inputs and levels only (no schedule).",
         "5 C01", "reference decoder (mc/src/refmodel.rs) and system zlib 1.2.13 are correct RFC 1951 decoders; inputs outside the enumerated alphabets/shapes are not covered"),
 "C10": ("exploration", "bounded-exhaustive enumeration of inputs x canonical (flags, window) configurations on the real compressor; token-level rules read off an independent reference decoder's trace; system zlib as second decoder",
         "Every (input, configuration) in the finite space is compressed by the real code; the strict-producer reference decoder and zlib must accept and return the input, and the trace must obey the level/strategy token rules and the redundancy clause.",
         "5 C10", "reference decoder and zlib independent of the crate; token rules for Fixed/RLE/Filtered asserted only where with_params does not override the strategy (window_bits 15)"),
}

checks = []
for pid in sorted(CHECKS):
    cat, tech, text, dref, note = CHECKS[pid]
    checks.append({
        "property_id": pid,
        "quick_cmd": f"./check {pid} quick",
        "thorough_cmd": f"./check {pid} thorough",
        "evidence_file": f"/verif/evidence/{pid}.json",
        "replay_cmd_template": f"./check {pid} --replay {{path}}",
        "engine": "mzo-mc",
        "level_claimed": {"category": cat, "text": text, "design_ref": "DESIGN.md section " + dref},
        "level_note": note,
        "technique": tech,
    })

NA = {
 "C20": "Property of the program text and of the compiler's verdict per feature set (forbid(unsafe_code), no_std build, auto traits); there is no execution or state space for a model checker to enumerate, so it is not claimed (DESIGN.md section 5, C20).",
}
ALL = [f"C{i:02d}" for i in range(1, 21)]
na = [{"property_id": p, "reason": NA.get(p, "check not built yet in this round (planned, see DESIGN.md section 8)")} for p in ALL if p not in CHECKS]

m = {
 "version": 1,
 "setup_cmd": "cd /verif && ./check selftest",
 "hooks": {
   "guard": "cargo feature `verif-hooks` of crate miniz_oxide (default off)",
   "enable": "the harness crate /verif/mc depends on /repo/miniz_oxide by path with features [serde, verif-hooks] (mc feature `hooks`); ./check falls back to a build without it if only the hooks fail to compile",
   "baseline_off_cmd": "cd /repo && cargo test --workspace --no-fail-fast --offline",
   "source_commits": hooks_commit,
   "add_only": True,
 },
 "engines": [
   {"name": "mzo-mc", "path": "/verif/mc", "serves_properties": sorted(CHECKS),
    "kind_free_text": "hand-rolled explicit-state / bounded-exhaustive explorer in Rust running the real miniz_oxide objects (fork = Clone, 128-bit complete-state fingerprints via verif-hooks), independent RFC 1951 reference decoder + stream generator, system zlib via FFI as third party"},
 ],
 "checks": checks,
 "not_applicable": na,
 "notes": "All checks rebuild the harness against /repo's working tree through cargo path dependencies. Exit 2 = machinery error (build failure, oracle disagreement, vacuity), never a verdict.",
}
json.dump(m, open(os.path.join(D, "MANIFEST.json"), "w"), indent=1)
print("wrote MANIFEST.json with", len(checks), "checks;", len(na), "not_applicable")
