#!/usr/bin/env python3
"""Generates /verif/MANIFEST.json from the table below (kept in one place so it stays valid)."""
import json, os, subprocess
D = os.path.dirname(os.path.dirname(os.path.abspath(__file__)))
hooks_commit = subprocess.run(["git", "-C", "/repo", "log", "--format=%H", "--grep=^verif hooks"], capture_output=True, text=True).stdout.split()

MC = "every trace is a trace of the real object (fork = Clone, or replay from a fresh object); states/transitions are counted by the explorer; bounds and caps are reported in the evidence"
CHECKS = {
 "C01": ("exploration", "bounded-exhaustive input enumeration x all levels x {raw,zlib} on the real one-shot functions; three-party decode oracle (crate, reference decoder, system zlib)",
         "Every element of the stated finite input x level space (all strings over small alphabets, every equality pattern, threshold shapes up to ~200 KB, inputs whose own encoding uses distance codes of every length 1..15, first-block ends at every offset around the encoder's 31 KiB / LZ-buffer cuts) is compressed by the real code and decoded by the crate, an independent bit-level reference decoder and system zlib; inside that space the round trip is decided completely. Right level: the property quantifies over inputs and levels only.",
         "5 C01", "reference decoder (mc/src/refmodel.rs) and system zlib 1.2.13 are correct RFC 1951 decoders; inputs outside the enumerated alphabets/shapes are not covered"),
 "C02": ("model_checking", "explicit exploration of call schedules on the real CompressorOxide (full depth on small inputs, deviation-bounded search around constant policies on 66-200 KB inputs; reset() is one of the actions and starts the next stream on the recycled object; window-wrap, mirror-probe, lazy-re-save-at-the-block-cut and Full-flush-after-wrap input families; the largest possible coded block against capacities around the compressor's own buffer sizes), terminal oracle = strict reference decoder + zlib",
         "All schedules over the chunk x capacity x flush alphabet up to the stated depth, and all single deviations (at every / every n-th call index) from 8 background policies incl. tiny-chunk and tiny-buffer ones, are executed on the real compressor through compress, compress_to_output and deflate; counts and status are checked per call and the concatenated output must be one stream decoding to the declared input. " + MC,
         "5 C02", "legal schedules = the first Finish(k) declares the end of the input (DESIGN Appendix A); the compressor exploration is stateless (no dedup); deviation bound 1 on long inputs"),
 "C03": ("exploration", "exhaustive enumeration of a DEFLATE stream grammar (independent bit writer) x 7 entry-point families on the real decoder (incl. decoder objects with one- and two-stream histories - a dynamic stream then each rejected HLIT/HDIST header - re-initialised, and None-then-Finish inflate schedules at window fractions/multiples); generator/reference/zlib triangulation before any verdict",
         "Every stream of the bounded grammar (every length x boundary distance, distance sweeps, chain codes of every maximum length 2..15, alternative code-length encodings, block sequences x 8 alignments, short token sequences, stored edges, all valid zlib wrappers) plus zlib- and crate-produced streams is decoded through every entry point and must give exactly the generator's plaintext and encoded length.",
         "5 C03", "generator, reference decoder and system zlib must agree on each stream first (else exit 2); streams outside the grammar are not covered"),
 "C04": ("fault_enumeration", "exhaustive short-string trie (all byte strings <= 2/3 bytes) and exhaustive single-fault mutation of a valid corpus, each under several chunkings and memory models (valid long-history sweeps in flat, one-window and two-window ring buffers), judged by the reference decoder in the same memory model",
         "Every byte string up to the stated length and every single bit flip / truncation / byte insertion / deletion of the corpus streams, plus targeted rule violations, is decoded by the real decoder: Done is accepted only if the consumed bytes are Complete for the reference with the same output; proper prefixes of triangulated valid streams must never be rejected as corrupt.",
         "5 C04", "'proper prefix' is asserted only by construction (truncation of a stream all three parties accept, or a trie node with a Complete descendant)"),
 "C05": ("model_checking", "full-depth exploration of call histories on one real DecompressorOxide with flags, slice and position changing between calls (depth 2 over the full 128 flag sets x 14 lengths x positions x budgets product, depth 3 reduced; plus every cut 1..96 of every pool stream as a start state), both build profiles; watchdog for hangs",
         "Every two-call history first-call (menu cuts, and every cut of the first 96 bytes with a reduced second-call menu) x (128 flag sets x 14 slice lengths x <=6 positions x 3 budgets x 6 inputs) and a reduced third call is executed on a clone of the real decoder: no panic, no hang, counts within bounds, unusable geometry = BadParam with the complete-state fingerprint unchanged, Failed and Adler32Mismatch sticky. " + MC,
         "5 C05", "a call that does not return within 20 s is a hang; output buffer contents are never branched on by the decoder (shared scratch buffer)"),
 "C06": ("exploration", "exhaustive enumeration of final-block variants (incl. 1-3 byte stored blocks served from the bit buffer at every refill phase) x trailing strings x chunkings x 15 entry points (incl. mz_inflate, mz_uncompress, tinfl_* on guard-paged buffers, decoder objects reused after a complete / abandoned / failed stream, Finish-mode inflate)",
         "For every stream whose final block ends at each bit offset, every trailing string of length 0..16,17,32,64 in three fills, one-call / bytewise / every cut around the end, the total consumed count must equal the generator's exact encoded length through every entry point, and a call after the end must consume nothing.",
         "5 C06", "exact encoded length comes from the independent generator (triangulated)"),
 "C07": ("model_checking", "explicit-state exploration of (input reveal, output budget) schedules on the real DecompressorOxide: unbounded-depth DFS with complete-state fingerprint dedup on short streams, deviation-bounded search with the full 10x9 alphabet elsewhere, all input compositions, all constant budgets; the multi-slice entry point under iterators with exact, absent and zero-lower-bound size hints x every split",
         "Within the same buffer mode every explored schedule must end with the same (output, status, consumed) as the one-call run and deliver a prefix of it at every step, for valid and invalid streams, flat and ring modes. " + MC,
         "5 C07", "dedup soundness rests on the fingerprint covering every field (hook destructures exhaustively) and on 128-bit collision freedom"),
 "C08": ("model_checking", "the C07 exploration with write-region and status-truthfulness monitors (snapshot comparison + second run with a different canary pattern), plus exhaustive limit sweep for the *_with_limit functions",
         "At every explored call nothing outside [out_pos, out_pos+written) changes, written <= min(budget, room), HasMoreOutput only with the region full, NeedsMoreInput only with all input consumed; limits {0,1,n-1,n,n+1,2n,MAX} for every corpus stream. " + MC,
         "5 C08", "in ring mode bytes ahead of the write position are old history and cannot be overwritten by a canary: snapshot comparison only"),
 "C09": ("exploration", "exhaustive enumeration: every canonical zlib configuration (with_params, C-API flags, hand-assembled flags) x inputs x first-call flush mode (producer), all 65536 headers x 18 geometries x 4 chunkings, every single-bit/byte trailer corruption x chunkings (decoder)",
         "Producer: header rules, trailer = Adler-32 by definition, exactly one well-formed stream. Decoder: RFC-invalid header never Done, valid header Done in flat mode and every ring >= declared window; every corrupted trailer/body gives Adler32Mismatch / MZ Data error under every chunking, Done with the ignore flag.",
         "5 C09", "reference Adler-32 is the byte-at-a-time definition (cross-checked against zlib)"),
 "C10": ("exploration", "bounded-exhaustive enumeration of inputs (incl. sweeps around every block-cut threshold of the pinned encoder: 31 KiB, code buffer full x flag-bit phase, window edge) x canonical (flags, window) configurations on the real compressor; token-level rules read off an independent reference decoder's trace; system zlib as second decoder",
         "Every (input, configuration) in the finite space is compressed by the real code; the strict-producer reference decoder and zlib must accept and return the input, the trace must obey the level/strategy token rules, and y||y must compress below 75%.",
         "5 C10", "token rules for Fixed/RLE/Filtered asserted only where with_params does not override the strategy (window_bits 15)"),
 "C11": ("exploration", "exhaustive sweep window_bits x level x strategy x setter variant (level, format-and-level same format / checksum-ignoring) x far-repeat inputs x {one-shot, Sync-cut} schedules; reference trace max distance, crate ring decoder of the declared size, system zlib with windowBits = CINFO+8",
         "For every cell the header must not declare more than 2^max(w,8), no match may reach beyond the declared window, and decoders that allocate only the declared window (crate ring, zlib fed 64-byte output chunks) must return the input.",
         "5 C11", "inputs place the repeat at window-1..window+3 and a menu of other distances; other input shapes are not covered"),
 "C12": ("model_checking", "the C02 schedule exploration with flush-point monitors (prefix decodability by the reference decoder at every qualifying flush return, marker check, Full-flush history cut and standalone remainder) plus an exhaustive triple-flush-sequence family and whole-input flushing calls on the block-cut edge inputs",
         "At every explored Sync/Full/Partial flush return that meets the property's precondition the bytes emitted so far decode to exactly the input so far; Sync/Full end with 00 00 ff ff; after a Full flush no match reaches before it and the remainder decodes alone; NoSync..Sync equals Sync. " + MC,
         "5 C12", "same as C02"),
 "C13": ("model_checking", "full-depth exploration of the 64-82-action alphabet (chunk x room incl. exact fit x flush, plus reset(format)/MinReset) on the real InflateState (new, and with two-stream histories ending in a rejected header), deeper with complete-state dedup; protocol reference model judges every transition; usual-loop liveness from every cut state",
         "Every action sequence up to the stated depth on valid, truncated, corrupt and trailing-data streams in three formats is executed on the real wrapper; counts, prefix, Full=>Stream, sticky Data, non-Finish after Finish, StreamEnd exactness/stability, progress, recoverable starvation, Finish on truncated = Buf are checked per transition and the None-loop must terminate with the plaintext from every reachable legal state. " + MC,
         "5 C13", "protocol wording calibrated in DESIGN Appendix A (first-call Finish poisons by design; Buf may deliver buffered bytes)"),
 "C14": ("model_checking", "full-depth exploration of the 61-action alphabet (chunk x room x flush, plus reset()) on the real CompressorOxide through deflate(); protocol model per transition; Finish-loop termination from every cut state and with buffers sized to the compressor's own block ends +-3",
         "Every action sequence to the stated depth is executed; counts, empty-output refusal without state change (fingerprint), progress, Finish returns only at StreamEnd or with a full buffer, StreamEnd only after Finish with a complete decodable stream, stability after the end, non-Finish after Finish = error without side effects. " + MC,
         "5 C14", "stateless exploration (no dedup); inputs up to 600 bytes at full depth, one 70 KB input at depth 2"),
 "C15": ("exploration", "exhaustive sweep n (0..300, every threshold +-1, multiples of 31744/65536, up to 1-4 MiB) x 13 content classes x levels -1..10 x 5 strategies, plus a period sweep (1041 periods around the encoder's block cut, trigram-free 9-bit literals, lazy levels, MZ_FIXED), through mz_deflate(MZ_FINISH) with avail_out = bound, with_params one-shot and mz_compress2",
         "For every cell the produced length must not exceed mz_deflateBound(n) and mz_compress2 with a compressBound destination must succeed; slack per content/strategy is recorded.",
         "5 C15", "content classes are adversarial by construction (9-bit literals, sparse matches, planted repeats) but finite"),
 "C16": ("exploration", "exhaustive enumeration of buffers x start values x split points against byte/bit-at-a-time definitions, in both scalar and simd builds (and a block-boundary build for the decoder's running checksum at BlockBoundary returns); running checksums monitored at every call boundary of the decoder schedules, mz_stream schedules (incl. rejected calls, End, Reset followed by calls that consume nothing) and the C02 compressor exploration",
         "Adler-32/CRC-32 equal their definitions for every length 0..300 and the block-size neighbourhoods, every single split (pairs for short buffers), four extreme start values, all 1-2 byte buffers, through Rust and C entry points; running checksums equal the checksum of the data so far at every explored call boundary.",
         "5 C16", "mz_stream.adler after mz_inflate is the checksum of the bytes decoded so far (delivered + at most one window pending)"),
 "C17": ("model_checking", "every (avail_in, avail_out, flush) schedule up to the stated depth replayed on mz_deflate/mz_inflate and in lock-step on the Rust API; guard-paged buffers (PROT_NONE at the end and at the start) with a fault handler; mz_deflateReset as a schedule element; callback-driven tdefl functions and tdefl_init re-initialisation in all mode combinations; pairwise one-shot functions; tinfl_decompress with wrapping windows of every size class; parameter sweeps; 47 misuse cases in child processes",
         "Per call identical code/counts/bytes to the Rust call, pointers and totals move together, nothing outside the declared ranges is touched (fault => violation), misuse returns an error code without crashing. " + MC,
         "5 C17", "reads outside the input range are seen only when they cross into the adjacent PROT_NONE page"),
 "C18": ("model_checking", "bounded histories (abandoned, pending output, each flush, empty-input flushes, finished, misuse-error, corrupt, every targeted format violation, a dynamic header cut at every byte, truncated+Finish) x reset variant x probes, per-call observations (rooms of 1, 700, 33 000 and 100 000 bytes) compared with a fresh object; every compressor history run twice (determinism)",
         "After each history and reset variant (CompressorOxide::reset, mz_deflateReset, MinReset/ZeroReset/FullReset/reset, DecompressorOxide::init) every probe under 2-3 schedules must behave exactly as on a freshly built object. " + MC,
         "5 C18", "probes are a fixed family (incl. a before-start reference, a dump of the whole preceding window, dynamic blocks with few code-length-code lengths, and 50-70 KB inputs recycling dictionary and hash chains)"),
 "C19": ("model_checking", "snapshot at every inter-call state of scheduled decodes: clone and rmp-serde round trip (fingerprint equality + three continuations each); block-boundary flavour: every block-kind sequence x 8 alignments x every cut plus every targeted format violation after valid first blocks (rebuilt = stop-and-continue = uninterrupted), record checks and rebuilt decoder",
         "Clone and serialise/deserialise copies taken at every explored suspension point have the same complete-state fingerprint and resume identically; with stop-on-block-boundary a stop is reported exactly once after each non-final block with <8 pending bits equal to the top bits of the last consumed byte, and a decoder rebuilt from the record continues identically. " + MC,
         "5 C19", "built twice: default features + serde, and + block-boundary"),
}

checks = []
for pid in sorted(CHECKS):
    cat, tech, text, dref, note = CHECKS[pid]
    checks.append({
        "property_id": pid,
        "quick_cmd": f"./check {pid} quick",
        "thorough_cmd": f"./check {pid} thorough",
        "evidence_file": f"/verif/evidence/{pid}.json",
        "replay_cmd_template": f"./check {pid} --replay {{path}}",
        "engine": "mzo-mc",
        "level_claimed": {"category": cat, "text": text, "design_ref": "DESIGN.md section " + dref},
        "level_note": note,
        "technique": tech,
    })

NA = {
 "C20": "Property of the program text and of the compiler's verdict per feature set (forbid(unsafe_code), no_std build, auto traits); there is no execution or state space for a model checker to enumerate, so it is not claimed (DESIGN.md section 5, C20).",
}
ALL = [f"C{i:02d}" for i in range(1, 21)]
na = [{"property_id": p, "reason": NA.get(p, "check not built yet in this round (planned, see DESIGN.md section 8)")} for p in ALL if p not in CHECKS]

m = {
 "version": 1,
 "setup_cmd": "cd /verif && ./check setup",
 "hooks": {
   "guard": "cargo feature `verif-hooks` of crate miniz_oxide (default off)",
   "enable": "the harness crate /verif/mc depends on /repo/miniz_oxide by path with features [serde, verif-hooks] (mc feature `hooks`); ./check falls back to a build without it if only the hooks fail to compile",
   "baseline_off_cmd": "cd /repo && cargo test --workspace --no-fail-fast --offline",
   "source_commits": hooks_commit,
   "add_only": True,
 },
 "engines": [
   {"name": "mzo-mc", "path": "/verif/mc", "serves_properties": sorted(CHECKS),
    "kind_free_text": "hand-rolled explicit-state / bounded-exhaustive explorer in Rust running the real miniz_oxide objects (fork = Clone, 128-bit complete-state fingerprints via verif-hooks), independent RFC 1951 reference decoder + stream generator, system zlib via FFI as third party"},
 ],
 "checks": checks,
 "not_applicable": na,
 "notes": "All checks rebuild the harness against /repo's working tree through cargo path dependencies. Exit 2 = machinery error (build failure, oracle disagreement, vacuity), never a verdict.",
}
json.dump(m, open(os.path.join(D, "MANIFEST.json"), "w"), indent=1)
print("wrote MANIFEST.json with", len(checks), "checks;", len(na), "not_applicable")
