#!/usr/bin/env python3
"""Applies every seeded change / mutant to /repo (always reverting), runs the quick check of the
property it targets (or all checks with --all), and records which checks report a VIOLATION.
Usage: tools/mutation_matrix.py [--all] [--tier quick|thorough] [ids...]"""
import json, os, subprocess, sys, glob, re, time
ALL = "--all" in sys.argv
# --copy: work on private copies of /repo and /verif (so the real trees stay usable meanwhile)
COPY = "--copy" in sys.argv
REPO, VERIF = "/repo", "/verif"
if COPY:
    REPO, VERIF = "/tmp/mm/repo", "/tmp/mm/verif"
    os.makedirs("/tmp/mm", exist_ok=True)
    subprocess.run(f"rm -rf {REPO} {VERIF}; git clone -q /repo {REPO} && rsync -a --exclude 'mc/target*' --exclude .git --exclude replays /verif/ {VERIF}/ && sed -i 's#/repo#{REPO}#g' {VERIF}/mc/Cargo.toml && cp /repo/Cargo.lock {REPO}/Cargo.lock", shell=True, check=True)
tier = "quick"
args = [a for a in sys.argv[1:] if not a.startswith("--")]
if "--tier" in sys.argv: tier = sys.argv[sys.argv.index("--tier") + 1]; args = [a for a in args if a != tier]
def sh(cmd, cwd=None, timeout=3600):
    p = subprocess.run(cmd, shell=True, cwd=cwd, capture_output=True, text=True, timeout=timeout)
    return p.returncode, p.stdout + p.stderr
assert sh("git status --porcelain", REPO)[1].strip() == "", "repo not clean"
items = []
for d in sorted(glob.glob("/verif/seeded/C*-*")):
    m = json.load(open(d + "/meta.json"))
    items.append((m["id"], m["property"], d + "/patch.diff"))
for f in sorted(glob.glob("/verif/mutants/*.patch")):
    name = os.path.basename(f)[:-6]
    mm = re.search(r"-c(\d\d)-", name)
    items.append((name, "C" + mm.group(1), f))
props = [f"C{i:02d}" for i in range(1, 20)]
out_path = "/verif/seeded/MATRIX.json"
matrix = json.load(open(out_path)) if os.path.exists(out_path) else {}
for (mid, prop, patch) in items:
    if args and mid not in args and prop not in args: continue
    rc, o = sh(f"git apply {patch}", REPO)
    if rc != 0:
        print(mid, "PATCH DOES NOT APPLY", o[:200]); matrix.setdefault(mid, {})["applies"] = False; continue
    try:
        row = matrix.setdefault(mid, {"property": prop})
        row["applies"] = True
        row.setdefault("detected_by", {})
        for p in (props if ALL else [prop]):
            t0 = time.time()
            rc, o = sh(f"./check {p} {tier}", VERIF)
            viol = [l for l in o.splitlines() if l.startswith("VIOLATION")]
            row["detected_by"][p] = {"tier": tier, "rc": rc, "violation_lines": len(viol), "first": viol[0][:300] if viol else "", "secs": round(time.time() - t0, 1)}
            print(mid, p, "rc", rc, "violations", len(viol), flush=True)
    finally:
        sh("git checkout -- .", REPO)
    json.dump(matrix, open(out_path, "w"), indent=1)
assert sh("git status --porcelain", REPO)[1].strip() == ""
own = {k: v["detected_by"].get(v["property"], {}).get("rc") == 1 for k, v in matrix.items() if "detected_by" in v}
print("detected by own property check:", sum(own.values()), "of", len(own)); print("missed:", [k for k, v in own.items() if not v])
