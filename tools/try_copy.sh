#!/bin/bash
# usage: tools/try_copy.sh <patch.diff> <ID> [tier] [slot]
# Like try_patch.sh but on a private copy of /repo and /verif under /tmp/tc<slot> (so /repo itself
# stays untouched while background runs use it). The copy of /verif is refreshed from the working
# tree each time (build output is kept), the copy of /repo is reset to /repo's HEAD.
P="$(readlink -f "$1")"; ID="$2"; T="${3:-quick}"; SLOT="${4:-0}"
R=/tmp/tc$SLOT
mkdir -p $R
if [ ! -d $R/repo/.git ]; then git clone -q /repo $R/repo || exit 9; fi
git -C $R/repo fetch -q origin 2>/dev/null
git -C $R/repo checkout -q -f "$(git -C /repo rev-parse HEAD)" || exit 9
git -C $R/repo clean -fdq
cp /repo/Cargo.lock $R/repo/Cargo.lock 2>/dev/null
rsync -a --delete --exclude 'mc/target*' --exclude .git --exclude replays --exclude 'evidence' /verif/ $R/verif/
mkdir -p $R/verif/evidence
sed -i "s#/repo#$R/repo#g" $R/verif/mc/Cargo.toml
if [ "$P" != "/dev/null" ] && [ -n "$1" ] && [ "$1" != "none" ]; then
  git -C $R/repo apply "$P" || { echo "patch does not apply"; exit 9; }
fi
cd $R/verif && ./check "$ID" "$T" 2>&1 | cut -c1-400 | head -${LINES_MAX:-12}
echo "rc=${PIPESTATUS[0]}"
