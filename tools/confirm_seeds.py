#!/usr/bin/env python3
"""Confirms sub-agent seeded changes in a scratch worktree: baseline suite passes with the patch,
demo fails with it and passes without it. Writes confirm.json next to each patch."""
import os, re, subprocess, json, sys, glob
WT = "/tmp/seedchk"
def sh(cmd, cwd=None, timeout=1800):
    p = subprocess.run(cmd, shell=True, cwd=cwd, capture_output=True, text=True, timeout=timeout)
    return p.returncode, (p.stdout + p.stderr)[-3000:]
if not os.path.isdir(WT):
    rc, o = sh(f"git -C /repo worktree add -q --detach {WT} HEAD"); assert rc == 0, o
dirs = sorted(glob.glob(os.environ.get("SEED_GLOB", "/tmp/seed/out/C*/[12]")))
only = sys.argv[1:]
for d in dirs:
    pid = [x for x in d.split("/") if re.fullmatch(r"C\d\d[a-z]?", x)][-1]
    if only and pid not in only: continue
    out = os.path.join(d, "confirm.json")
    if os.path.exists(out): continue
    res = {"dir": d}
    try:
        txt = open(os.path.join(d, "demo_path.txt")).read()
        m = re.search(r"(\S*tests/seed\d*_demo(?:_\d)?\.rs)", txt)
        rel = m.group(1).lstrip("./")
        name = os.path.basename(rel)[:-3]
        cdir = os.path.dirname(os.path.dirname(rel))
        feats = " --features block-boundary" if "block-boundary" in txt else ""
        cmd = f"cargo test --offline --test {name}{feats}"
        sh("git checkout -- . && git clean -fdq -e target", WT)
        rc, o = sh(f"git apply {d}/patch.diff", WT)
        res["applies"] = rc == 0
        if rc != 0: raise Exception("patch does not apply: " + o)
        rc, o = sh("cargo test --workspace --no-fail-fast --offline 2>&1 | grep -E '^test result|FAILED|^error' ", WT)
        res["baseline_with_patch_passes"] = ("FAILED" not in o and "\nerror" not in ("\n" + o) and o.count("test result: ok") >= 7)
        res["baseline_tail"] = o[-600:]
        os.makedirs(os.path.join(WT, os.path.dirname(rel)), exist_ok=True)
        sh(f"cp {d}/demo.rs {WT}/{rel}")
        rc, o = sh(cmd, os.path.join(WT, cdir))
        res["demo_fails_with_patch"] = rc != 0 and ("test result: FAILED" in o or "panicked" in o)
        res["demo_with_patch_tail"] = o[-500:]
        sh(f"git apply -R {d}/patch.diff", WT)
        rc, o = sh(cmd, os.path.join(WT, cdir))
        res["demo_passes_without_patch"] = rc == 0
        res["demo_cmd"] = f"(cd {cdir or '.'} && {cmd})"
        res["demo_rel_path"] = rel
    except Exception as e:
        res["error"] = str(e)
    sh("git checkout -- . && git clean -fdq -e target", WT)
    json.dump(res, open(out, "w"), indent=1)
    print(pid, d[-1], {k: v for k, v in res.items() if isinstance(v, bool)}, res.get("error", ""), flush=True)
